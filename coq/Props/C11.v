(* C11 — scalers compute their documented normal form along the right axis. *)
From Coq Require Import ZArith QArith List Bool Arith.
From SKC Require Import Base.QBool Base.QList Model.Transform Theory.Transform.
Import ListNotations.

Theorem C11_sum_scaler_sums_to_1 : forall v, ~ qsum v == 0 -> qsum (sum_scale v) == 1.
Proof. exact sum_scale_sums_to_1. Qed.
Print Assumptions C11_sum_scaler_sums_to_1.

Theorem C11_sum_scaler_cell : forall v i, nth i (sum_scale v) 0 == nth i v 0 / qsum v.
Proof. exact sum_scale_cell. Qed.
Print Assumptions C11_sum_scaler_cell.

Theorem C11_maxabs_largest_is_1 : forall v,
  v <> [] -> ~ lmax (map qabs v) == 0 -> lmax (map qabs (maxabs_scale v)) == 1.
Proof. exact maxabs_max_is_1. Qed.
Print Assumptions C11_maxabs_largest_is_1.

Theorem C11_minmax_cell : forall lo hi v x,
  ~ lmax v - lmin v == 0 -> In x v ->
  In ((x - lmin v) / (lmax v - lmin v) * (hi - lo) + lo) (minmax_scale lo hi v).
Proof. exact minmax_cell. Qed.
Print Assumptions C11_minmax_cell.

Theorem C11_minmax_endpoints : forall lo hi v,
  ~ lmax v - lmin v == 0 ->
  (lmin v - lmin v) / (lmax v - lmin v) * (hi - lo) + lo == lo /\
  (lmax v - lmin v) / (lmax v - lmin v) * (hi - lo) + lo == hi.
Proof. exact minmax_endpoints. Qed.
Print Assumptions C11_minmax_endpoints.

Theorem C11_cenit_ideal_1_antiideal_0 : forall (mx : bool) v,
  ~ lmax v - lmin v == 0 ->
  let cenit := if mx then lmax v else lmin v in
  let nadir := if mx then lmin v else lmax v in
  (cenit - nadir) / (cenit - nadir) == 1 /\ (nadir - nadir) / (cenit - nadir) == 0.
Proof. exact cenit_ideal_1_nadir_0. Qed.
Print Assumptions C11_cenit_ideal_1_antiideal_0.

Theorem C11_push_negatives_spec : forall v,
  (lmin v < 0 -> push_neg v = map (fun x => x - lmin v) v) /\ (0 <= lmin v -> push_neg v = v).
Proof. exact push_neg_spec. Qed.
Print Assumptions C11_push_negatives_spec.

Theorem C11_push_negatives_new_min_is_0 : forall v, v <> [] -> lmin v < 0 -> lmin (push_neg v) == 0.
Proof. exact push_neg_min_zero. Qed.
Print Assumptions C11_push_negatives_new_min_is_0.

Theorem C11_add_value_to_zero_spec : forall e v,
  ((exists x, In x v /\ x == 0) -> add_zero e v = map (fun x => x + e) v) /\
  ((forall x, In x v -> ~ x == 0) -> add_zero e v = v).
Proof. exact add_zero_spec. Qed.
Print Assumptions C11_add_value_to_zero_spec.

(* right axis: a matrix-target scaler transforms every criterion (column) separately *)
Theorem C11_matrix_target_is_columnwise : forall m f rows j,
  (j < m)%nat -> (forall c, length (f c) = length c) ->
  col (on_matrix m f rows) j = f (col rows j).
Proof. exact matrix_target_columnwise. Qed.
Print Assumptions C11_matrix_target_is_columnwise.

(* the two irrational scalers in normal form, for ANY s whose square is the rational core (the real
   square root the code takes is such an s): VectorScaler outputs have unit euclidean norm,
   StandarScaler outputs have mean 0 and population variance 1 *)
Theorem C11_vector_scaler_unit_norm : forall v s,
  s * s == sumsq v -> ~ s == 0 -> sumsq (map (fun x => x / s) v) == 1.
Proof. exact vector_scaler_unit_norm. Qed.
Print Assumptions C11_vector_scaler_unit_norm.

Theorem C11_standard_scaler_mean_0 : forall v s,
  v <> [] -> ~ s == 0 -> mean (map (fun x => (x - mean v) / s) v) == 0.
Proof. exact standard_scaler_mean_0. Qed.
Print Assumptions C11_standard_scaler_mean_0.

Theorem C11_standard_scaler_var_1 : forall v s,
  v <> [] -> s * s == pvar v -> ~ s == 0 -> pvar (map (fun x => (x - mean v) / s) v) == 1.
Proof. exact standard_scaler_var_1. Qed.
Print Assumptions C11_standard_scaler_var_1.

Theorem C11_standard_scaler_std_only_var_1 : forall v s,
  v <> [] -> s * s == pvar v -> ~ s == 0 -> pvar (map (fun x => x / s) v) == 1.
Proof. exact standard_scaler_std_only_var_1. Qed.
Print Assumptions C11_standard_scaler_std_only_var_1.

Theorem C11_standard_scaler_mean_only_mean_0 : forall v,
  v <> [] -> mean (map (fun x => x - mean v) v) == 0.
Proof. exact standard_scaler_mean_only. Qed.
Print Assumptions C11_standard_scaler_mean_only_mean_0.

Example C11_irrational_hypotheses_met : (5 * 5 == sumsq [3; 4]) /\ ~ 5 == 0 /\ (1 * 1 == pvar [1; 3]) .
Proof. repeat split; try reflexivity; intros H; discriminate H. Qed.

Example C11_example :
  on_matrix 2 sum_scale [[1; 2]; [3; 6]; [0; 2]] = [[1 / (1 + (3 + (0 + 0))); 2 / (2 + (6 + (2 + 0)))];
                                                     [3 / (1 + (3 + (0 + 0))); 6 / (2 + (6 + (2 + 0)))];
                                                     [0 / (1 + (3 + (0 + 0))); 2 / (2 + (6 + (2 + 0)))]] /\
  push_neg [1; -(2); 3] = [1 - -(2); -(2) - -(2); 3 - -(2)] /\ push_neg [1; 2] = [1; 2] /\
  add_zero (1#2) [0; 1] = [0 + (1#2); 1 + (1#2)] /\ add_zero (1#2) [2; 1] = [2; 1].
Proof. repeat split; reflexivity. Qed.

(* criteria stored in 8/16/32-bit integers (repaired by a fix: commit, witness of the old behaviour:
   Findings.push_neg_int8_refuted): shifting after widening to 64 bits never wraps, so the shifted criterion has
   minimum 0 *)
From SKC Require Import Model.IntStorage Findings.
Theorem C11_push_negatives_on_narrow_integers : forall v,
  v <> [] -> Forall (fun x => (- 2 ^ 31 <= x < 2 ^ 31)%Z) v -> (zmin v < 0)%Z ->
  zmin (push_neg_wrapped 64 v) = 0%Z.
Proof. exact push_neg_repaired_min_zero. Qed.
Print Assumptions C11_push_negatives_on_narrow_integers.

Theorem C11_push_negatives_in_the_storage_type_wraps :
  exists v, Forall (fun x => (-128 <= x < 128)%Z) v /\ zmin (push_neg_wrapped 8 v) <> 0%Z.
Proof. exact push_neg_int8_refuted. Qed.
Print Assumptions C11_push_negatives_in_the_storage_type_wraps.
