(* C13 — weighting methods are normalised, definition-conformant and order-independent.
   Standard deviation, correlation and entropy are closed with sqrt / ln by the harness
   (and in Theory/RealClosing.v); the theorems are about their rational cores. *)
From Coq Require Import ZArith QArith List Bool Arith Permutation.
From SKC Require Import Base.QBool Base.QList Model.Transform Model.Weights Theory.Transform Theory.Weights.
From Coq Require Reals.
From SKC Require Import Theory.RankPerm Theory.ScalerPerm.
From SKC Require Theory.RealClosing.
Import ListNotations.

Theorem C13_equal_weighter : forall base m,
  length (equal_weights base m) = m /\
  forall w, In w (equal_weights base m) -> w = base / inject_Z (Z.of_nat m).
Proof. exact equal_weights_spec. Qed.
Print Assumptions C13_equal_weighter.

(* the normalisation step shared by Std / Entropy / CRITIC *)
Theorem C13_normalised_weights_sum_to_1 : forall u, ~ qsum u == 0 -> qsum (normalise u) == 1.
Proof. exact normalise_sums_to_1. Qed.
Print Assumptions C13_normalised_weights_sum_to_1.

Theorem C13_normalised_weights_nonneg : forall u y,
  (forall x, In x u -> 0 <= x) -> 0 < qsum u -> In y (normalise u) -> 0 <= y.
Proof. exact normalise_nonneg. Qed.
Print Assumptions C13_normalised_weights_nonneg.

(* order of the alternatives is irrelevant to every core *)
Theorem C13_sample_variance_order_independent : forall v v', Permutation v v' -> svar v == svar v'.
Proof. exact svar_perm. Qed.
Print Assumptions C13_sample_variance_order_independent.

Theorem C13_population_variance_order_independent : forall v v', Permutation v v' -> pvar v == pvar v'.
Proof. exact pvar_perm. Qed.
Print Assumptions C13_population_variance_order_independent.

Theorem C13_covariance_order_independent : forall v u v' u',
  length v = length u -> length v' = length u' ->
  Permutation (combine v u) (combine v' u') -> cov v u == cov v' u'.
Proof. exact cov_perm. Qed.
Print Assumptions C13_covariance_order_independent.

Theorem C13_average_ranks_order_independent : forall v v',
  Permutation v v' -> Permutation (avg_rank v) (avg_rank v').
Proof. exact avg_rank_perm. Qed.
Print Assumptions C13_average_ranks_order_independent.

(* order of the criteria: the correlation table is symmetric, its diagonal is the variance *)
Theorem C13_covariance_symmetric : forall v u, length v = length u -> cov v u == cov u v.
Proof. exact cov_sym. Qed.
Print Assumptions C13_covariance_symmetric.

Theorem C13_covariance_diagonal : forall v, cov v v == pvar v.
Proof. exact cov_self_is_pvar. Qed.
Print Assumptions C13_covariance_diagonal.

(* Cauchy-Schwarz: the correlation lies in [-1,1], so every (1 - r_jk) term of CRITIC is >= 0 *)
Theorem C13_correlation_bounded : forall v u,
  length v = length u -> v <> [] -> cov v u * cov v u <= pvar v * pvar u.
Proof. exact cov_cauchy_schwarz. Qed.
Print Assumptions C13_correlation_bounded.

(* the reduced (fast) versions the driver executes compute the same cores *)
Theorem C13_executed_cores_are_the_cores : forall v u,
  pvar_r v == pvar v /\ svar_r v == svar v /\ cov_r v u == cov v u.
Proof. exact (fun v u => conj (pvar_r_correct v) (conj (svar_r_correct v) (cov_r_correct v u))). Qed.
Print Assumptions C13_executed_cores_are_the_cores.

(* order of the criteria: the normalisation (division by the sum of the per-criterion quantities) gives every
   criterion the same weight wherever it is listed; and a per-criterion quantity that is a sum over all criteria
   (CRITIC's sum of 1 - r_jk) does not depend on the order in which the other criteria are listed *)
Theorem C13_normalised_weights_follow_their_criteria : forall sigma u,
  Permutation sigma (seq 0 (length u)) ->
  Forall2 Qeq (normalise (reindex 0 sigma u)) (reindex 0 sigma (normalise u)).
Proof. intros sigma u P. exact (sum_scale_reindex sigma u P). Qed.
Print Assumptions C13_normalised_weights_follow_their_criteria.

Theorem C13_sum_over_criteria_order_independent : forall (g : list Q -> Q) cs cs',
  Permutation cs cs' -> qsum (map g cs) == qsum (map g cs').
Proof. intros g cs cs' P. apply Theory.QListFacts.qsum_perm. apply Permutation_map. exact P. Qed.
Print Assumptions C13_sum_over_criteria_order_independent.

(* EntropyWeighter, over the reals: the Shannon entropy of a criterion's probability column is at most ln n
   (Gibbs' inequality; 0 ln 0 = 0 as scipy.stats.entropy has it), so each diversity 1 - H / ln n lies in
   [0, 1] and the normalised weights are non-negative *)
Theorem C13_entropy_at_most_ln_n : forall l : list Rdefinitions.R,
  l <> [] -> Forall (fun p => Rdefinitions.Rle (Rdefinitions.IZR 0) p) l ->
  RealClosing.rsum l = Rdefinitions.IZR 1 ->
  Rdefinitions.Rle (Rdefinitions.Ropp (RealClosing.plogp l)) (Rpower.ln (Raxioms.INR (length l))).
Proof. exact RealClosing.entropy_le_ln_n. Qed.
Print Assumptions C13_entropy_at_most_ln_n.

Theorem C13_entropy_diversity_in_unit_interval : forall l : list Rdefinitions.R,
  (2 <= length l)%nat -> Forall (fun p => Rdefinitions.Rle (Rdefinitions.IZR 0) p) l ->
  Forall (fun p => Rdefinitions.Rle p (Rdefinitions.IZR 1)) l -> RealClosing.rsum l = Rdefinitions.IZR 1 ->
  let d := Rdefinitions.Rplus (Rdefinitions.IZR 1)
             (Rdefinitions.Rdiv (RealClosing.plogp l) (Rpower.ln (Raxioms.INR (length l)))) in
  Rdefinitions.Rle (Rdefinitions.IZR 0) d /\ Rdefinitions.Rle d (Rdefinitions.IZR 1).
Proof. exact RealClosing.entropy_diversity_bounds. Qed.
Print Assumptions C13_entropy_diversity_in_unit_interval.

(* Spearman's variant correlates the RANKS of the criteria: the variance of a tie-free rank column 1..n has the closed
   form (n^2 - 1) / 12, a column with ties (average ranks) has a smaller one - a shortcut that assumes the closed form
   for every criterion is only right without ties *)
From SKC Require Import Theory.RankVar.
Theorem C13_variance_of_tie_free_ranks : forall n,
  (1 <= n)%nat -> (pvar (ranks n) == (qnat n * qnat n - 1) / 12)%Q.
Proof. exact pvar_of_tie_free_ranks. Qed.
Print Assumptions C13_variance_of_tie_free_ranks.

Example C13_tied_ranks_have_smaller_variance :
  (pvar [1; 5 # 2; 5 # 2; 4] < (qnat 4 * qnat 4 - 1) / 12)%Q.
Proof. exact tied_ranks_have_smaller_variance. Qed.

Example C13_example :
  svar [1; 2; 3] == 1 /\ pvar [1; 2; 3] == 2 # 3 /\ cov [1; 2; 3] [3; 2; 1] == - (2 # 3) /\
  avg_rank [5; 1; 5; 7] = [1 + (2 + 1) / 2; 0 + (1 + 1) / 2; 1 + (2 + 1) / 2; 3 + (1 + 1) / 2] /\
  qsum (normalise [1; 3]) == 1.
Proof. vm_compute. repeat split; reflexivity. Qed.
