(* C14 — filters keep exactly the alternatives that satisfy every condition. *)
From Coq Require Import ZArith QArith List Bool Arith Permutation.
From SKC Require Import Base.QBool Model.Agg Model.Select Model.Dominance Model.Filters Theory.Filters.
Import ListNotations.

(* the mask the implementation builds (columns looked up per written condition) is the
   specification: survive iff every condition holds on the criterion it names *)
Theorem C14_mask_is_specification : forall crits conds ignore rows,
  filter_impl crits conds ignore rows = filter_spec crits conds ignore rows.
Proof. exact impl_refines_spec. Qed.
Print Assumptions C14_mask_is_specification.

Theorem C14_survives_iff : forall crits conds r,
  survives crits conds r = true <->
  forall c k, In (c, k) conds -> forall j, index_of c crits = Some j -> sat k (nth j r 0%Q) = true.
Proof. exact survives_iff. Qed.
Print Assumptions C14_survives_iff.

Theorem C14_condition_order_irrelevant : forall crits conds conds' ignore rows,
  Permutation conds conds' ->
  filter_spec crits conds ignore rows = filter_spec crits conds' ignore rows.
Proof. exact cond_order_irrelevant. Qed.
Print Assumptions C14_condition_order_irrelevant.

Theorem C14_criteria_order_irrelevant : forall crits ps conds r,
  NoDup crits -> Permutation ps (seq 0 (length crits)) -> length r = length crits ->
  survives (gather 0%Z ps crits) conds (gather 0%Q ps r) = survives crits conds r /\
  has_missing (gather 0%Z ps crits) conds = has_missing crits conds.
Proof. exact criteria_order_irrelevant. Qed.
Print Assumptions C14_criteria_order_irrelevant.

Theorem C14_missing_criterion_policy : forall crits conds ignore rows,
  (filter_spec crits conds ignore rows = Err E_VALUE <->
   ignore = false /\ exists c k, In (c, k) conds /\ ~ In c crits).
Proof. exact missing_criterion_policy. Qed.
Print Assumptions C14_missing_criterion_policy.

Theorem C14_nondominated_spec : forall strict objs rows i,
  (i < length rows)%nat ->
  nth i (nondominated strict objs rows) false =
  negb (existsb (fun j => dom_cell strict objs rows j i) (seq 0 (length rows))).
Proof. exact nondominated_spec. Qed.
Print Assumptions C14_nondominated_spec.

Example C14_example :
  filter_impl [1; 2; 3]%Z [(3%Z, CGt 27); (1%Z, CGt 1)] false [[7; 5; 35]; [5; 4; 26]; [1; 7; 30]]
    = Ok [true; false; false] /\
  filter_impl [1; 2; 3]%Z [(9%Z, CGt 0); (1%Z, CGt 1)] false [[7; 5; 35]] = Err E_VALUE /\
  filter_impl [1; 2; 3]%Z [(9%Z, CGt 0); (1%Z, CGt 1)] true [[7; 5; 35]; [1; 1; 1]] = Ok [true; false].
Proof. vm_compute. repeat split. Qed.
