(* C14 — filters keep exactly the alternatives that satisfy every condition. *)
From Coq Require Import ZArith QArith List Bool Arith Permutation.
From SKC Require Import Base.QBool Model.Agg Model.Select Model.Dominance Model.Filters Theory.Filters.
Import ListNotations.

(* the mask the implementation builds (columns looked up per written condition) is the
   specification: survive iff every condition holds on the criterion it names *)
Theorem C14_mask_is_specification : forall crits conds ignore rows,
  filter_impl crits conds ignore rows = filter_spec crits conds ignore rows.
Proof. exact impl_refines_spec. Qed.
Print Assumptions C14_mask_is_specification.

Theorem C14_survives_iff : forall crits conds r,
  survives crits conds r = true <->
  forall c k, In (c, k) conds -> forall j, index_of c crits = Some j -> sat k (nth j r 0%Q) = true.
Proof. exact survives_iff. Qed.
Print Assumptions C14_survives_iff.

Theorem C14_condition_order_irrelevant : forall crits conds conds' ignore rows,
  Permutation conds conds' ->
  filter_spec crits conds ignore rows = filter_spec crits conds' ignore rows.
Proof. exact cond_order_irrelevant. Qed.
Print Assumptions C14_condition_order_irrelevant.

Theorem C14_criteria_order_irrelevant : forall crits ps conds r,
  NoDup crits -> Permutation ps (seq 0 (length crits)) -> length r = length crits ->
  survives (gather 0%Z ps crits) conds (gather 0%Q ps r) = survives crits conds r /\
  has_missing (gather 0%Z ps crits) conds = has_missing crits conds.
Proof. exact criteria_order_irrelevant. Qed.
Print Assumptions C14_criteria_order_irrelevant.

Theorem C14_missing_criterion_policy : forall crits conds ignore rows,
  (filter_spec crits conds ignore rows = Err E_VALUE <->
   ignore = false /\ exists c k, In (c, k) conds /\ ~ In c crits).
Proof. exact missing_criterion_policy. Qed.
Print Assumptions C14_missing_criterion_policy.

Theorem C14_nondominated_spec : forall strict objs rows i,
  (i < length rows)%nat ->
  nth i (nondominated strict objs rows) false =
  negb (existsb (fun j => dom_cell strict objs rows j i) (seq 0 (length rows))).
Proof. exact nondominated_spec. Qed.
Print Assumptions C14_nondominated_spec.

(* what each comparison operator means (so that > cannot silently be >=, nor "in" be "not in") *)
Theorem C14_operator_meaning : forall c x,
  sat c x = true <->
  match c with
  | CGt v => (v < x)%Q | CGe v => (v <= x)%Q | CLt v => (x < v)%Q | CLe v => (x <= v)%Q
  | CEq v => (x == v)%Q | CNe v => ~ (x == v)%Q
  | CIn s => exists y, In y s /\ (x == y)%Q
  | CNotIn s => forall y, In y s -> ~ (x == y)%Q
  | CFn k => palette k x = true
  end.
Proof. exact sat_meaning. Qed.
Print Assumptions C14_operator_meaning.

Theorem C14_operators_come_in_complementary_pairs : forall x,
  (forall s, sat (CNotIn s) x = negb (sat (CIn s) x)) /\
  (forall v, sat (CNe v) x = negb (sat (CEq v) x)) /\
  (forall v, sat (CLe v) x = negb (sat (CGt v) x)) /\
  (forall v, sat (CLt v) x = negb (sat (CGe v) x)).
Proof. exact sat_complements. Qed.
Print Assumptions C14_operators_come_in_complementary_pairs.

Theorem C14_single_valued_sets : forall v x,
  sat (CIn [v]) x = sat (CEq v) x /\ sat (CNotIn [v]) x = sat (CNe v) x.
Proof. exact single_valued_sets. Qed.
Print Assumptions C14_single_valued_sets.

(* two filters in a row keep what one filter with both lists of conditions keeps *)
Theorem C14_conditions_conjoin : forall crits c1 c2 r,
  survives crits (c1 ++ c2) r = survives crits c1 r && survives crits c2 r.
Proof. exact survives_app. Qed.
Print Assumptions C14_conditions_conjoin.


Example C14_example :
  filter_impl [1; 2; 3]%Z [(3%Z, CGt 27); (1%Z, CGt 1)] false [[7; 5; 35]; [5; 4; 26]; [1; 7; 30]]
    = Ok [true; false; false] /\
  filter_impl [1; 2; 3]%Z [(9%Z, CGt 0); (1%Z, CGt 1)] false [[7; 5; 35]] = Err E_VALUE /\
  filter_impl [1; 2; 3]%Z [(9%Z, CGt 0); (1%Z, CGt 1)] true [[7; 5; 35]; [1; 1; 1]] = Ok [true; false].
Proof. vm_compute. repeat split. Qed.
