(* C17 — equality and diff are total, consistent, and name exactly what differs. *)
From Coq Require Import ZArith QArith List Bool Arith.
From SKC Require Import Base.QBool Base.QList Model.Diff Theory.Diff Theory.Diff2.
Import ListNotations.

(* totality: incompatible lengths compare as "different" instead of raising *)
Theorem C17_different_lengths_are_different : forall t a b,
  length a <> length b -> allclose t a b = false.
Proof. exact allclose_length_mismatch. Qed.
Print Assumptions C17_different_lengths_are_different.

Theorem C17_result_of_other_length_names_values : forall t a b,
  length (r_vals a) <> length (r_vals b) -> In MValues (res_diff t a b).
Proof. exact res_values_length_mismatch. Qed.
Print Assumptions C17_result_of_other_length_names_values.

Theorem C17_object_equals_its_copy : forall d, equals (ODM d) (ODM d) = true.
Proof. exact dm_equals_copy. Qed.
Print Assumptions C17_object_equals_its_copy.

Theorem C17_exact_equality_symmetric : forall a b, equals (ODM a) (ODM b) = equals (ODM b) (ODM a).
Proof. exact dm_equals_sym. Qed.
Print Assumptions C17_exact_equality_symmetric.

Theorem C17_exact_implies_tolerant : forall t a b,
  0 <= rtol t -> 0 <= atol t -> equals (ODM a) (ODM b) = true -> aequals t (ODM a) (ODM b) = true.
Proof. exact dm_equals_implies_aequals. Qed.
Print Assumptions C17_exact_implies_tolerant.

Theorem C17_ne_is_not_eq : forall x y, neb x y = negb (eqb x y).
Proof. exact ne_is_not_eq. Qed.
Print Assumptions C17_ne_is_not_eq.

Theorem C17_unrelated_types_are_different : forall x y,
  type_tag x <> type_tag y -> equals x y = false /\ fst (diff exact true x y) = true.
Proof. exact different_types_never_equal. Qed.
Print Assumptions C17_unrelated_types_are_different.

(* same shape: a member is named exactly when it differs beyond tolerance *)
Theorem C17_same_shape_members : forall t c a b,
  same_shape a b = true ->
  dm_diff t c a b =
  keep MCriteria (eq_labels (d_crits a) (d_crits b)) ++
  keep MAlternatives (eq_labels (d_alts a) (d_alts b)) ++
  keep MObjectives (eq_bools (d_objs a) (d_objs b)) ++
  keep MWeights (allclose t (d_wts a) (d_wts b)) ++
  keep MMatrix (allclose2 t (d_cells a) (d_cells b)) ++
  (if c then keep MDtypes (eq_labels (d_dts a) (d_dts b)) else []).
Proof. exact dm_diff_same_shape. Qed.
Print Assumptions C17_same_shape_members.

Theorem C17_only_weights_changed_names_weights : forall t a b,
  same_shape a b = true ->
  eq_labels (d_crits a) (d_crits b) = true -> eq_labels (d_alts a) (d_alts b) = true ->
  eq_bools (d_objs a) (d_objs b) = true -> allclose2 t (d_cells a) (d_cells b) = true ->
  allclose t (d_wts a) (d_wts b) = false ->
  dm_diff t false a b = [MWeights].
Proof. exact one_member_named_weights. Qed.
Print Assumptions C17_only_weights_changed_names_weights.

Theorem C17_only_matrix_changed_names_matrix : forall t a b,
  same_shape a b = true ->
  eq_labels (d_crits a) (d_crits b) = true -> eq_labels (d_alts a) (d_alts b) = true ->
  eq_bools (d_objs a) (d_objs b) = true -> allclose t (d_wts a) (d_wts b) = true ->
  allclose2 t (d_cells a) (d_cells b) = false ->
  dm_diff t false a b = [MMatrix].
Proof. exact one_member_named_matrix. Qed.
Print Assumptions C17_only_matrix_changed_names_matrix.

Theorem C17_only_values_changed_names_values : forall t a b,
  r_method a = r_method b -> eq_labels (r_alts a) (r_alts b) = true ->
  extra_close t (r_extra a) (r_extra b) = true -> allclose t (r_vals a) (r_vals b) = false ->
  res_diff t a b = [MValues].
Proof. exact one_member_named_values. Qed.
Print Assumptions C17_only_values_changed_names_values.

Theorem C17_shape_change_names_every_member : forall t a b,
  same_shape a b = false ->
  dm_diff t false a b = [MShape; MCriteria; MAlternatives; MObjectives; MWeights; MMatrix].
Proof. exact shape_change_names_all. Qed.
Print Assumptions C17_shape_change_names_every_member.

(* the general statement: diff names a member exactly when that member differs (beyond tolerance), for every
   member of both object kinds; hence when exactly one member is changed, diff is exactly that member *)
Theorem C17_matrix_diff_names_exactly_what_differs : forall t c a b m,
  In m (dm_diff t c a b) <-> dm_member_ok t c a b m = false.
Proof. exact dm_diff_names_exactly. Qed.
Print Assumptions C17_matrix_diff_names_exactly_what_differs.

Theorem C17_result_diff_names_exactly_what_differs : forall t a b m,
  In m (res_diff t a b) <-> res_member_ok t a b m = false.
Proof. exact res_diff_names_exactly. Qed.
Print Assumptions C17_result_diff_names_exactly_what_differs.

Theorem C17_one_matrix_member_changed : forall t c a b m,
  dm_member_ok t c a b m = false -> (forall m', m' <> m -> dm_member_ok t c a b m' = true) ->
  forall m', In m' (dm_diff t c a b) <-> m' = m.
Proof. exact dm_one_member_changed. Qed.
Print Assumptions C17_one_matrix_member_changed.

Theorem C17_one_result_member_changed : forall t a b m,
  res_member_ok t a b m = false -> (forall m', m' <> m -> res_member_ok t a b m' = true) ->
  forall m', In m' (res_diff t a b) <-> m' = m.
Proof. exact res_one_member_changed. Qed.
Print Assumptions C17_one_result_member_changed.

Theorem C17_no_member_named_twice : forall t c a b, NoDup (dm_diff t c a b).
Proof. exact dm_diff_sorted_nodup. Qed.
Print Assumptions C17_no_member_named_twice.

(* results: a result equals its copy; exact equality implies tolerant equality; a ranking is never a kernel *)
Theorem C17_result_equals_its_copy : forall r, NoDup (map fst (r_extra r)) -> equals (ORes r) (ORes r) = true.
Proof. exact res_equals_copy. Qed.
Print Assumptions C17_result_equals_its_copy.

Theorem C17_result_exact_implies_tolerant : forall t a b,
  0 <= rtol t -> 0 <= atol t -> equals (ORes a) (ORes b) = true -> aequals t (ORes a) (ORes b) = true.
Proof. exact res_equals_implies_aequals. Qed.
Print Assumptions C17_result_exact_implies_tolerant.

Theorem C17_ranking_never_equals_kernel : forall a b, r_kernel a = true -> r_kernel b = false ->
  equals (ORes a) (ORes b) = false.
Proof. exact rank_and_kernel_results_differ. Qed.
Print Assumptions C17_ranking_never_equals_kernel.

Example C17_example :
  let a := {| r_kernel := false; r_method := 1%Z; r_alts := [1; 2; 3]%Z; r_vals := [1; 2; 3]; r_extra := [] |} in
  let b := {| r_kernel := false; r_method := 1%Z; r_alts := [1; 2]%Z; r_vals := [1; 2]; r_extra := [] |} in
  equals (ORes a) (ORes b) = false /\ snd (diff exact true (ORes a) (ORes b)) = [MAlternatives; MValues] /\
  equals (ORes a) (ORes a) = true /\ equals (ORes a) (OOther 0) = false /\
  NoDup (map fst [(1%Z, [1]); (2%Z, [2; 3])]).
Proof. vm_compute. repeat split. repeat constructor; simpl; intuition discriminate. Qed.
