(* C05 — rankings do not depend on how the decision problem is written down.
   PARTIAL: the theorems cover
   - the order of alternatives: all row-wise scores and their whole ranking (WSM, WPM, RatioMOORA, FMF),
     the ideal / reference point and the ReferencePointMOORA ranking, MultiMOORA's dominance count,
     every ELECTRE table, relation, the kernel and the ELECTRE2 distillation and final ranking;
   - the order of criteria: the linear scores (WSM, RatioMOORA), ELECTRE concordance / discordance /
     weight comparison (specified and as called) and the discordance scale;
   - the weight scale: WSM, RatioMOORA, ReferencePointMOORA, TOPSIS closeness, WPM, FMF;
   - labels never enter a kernel (by typing: the kernels take no labels).
   - TOPSIS: distances under any order of the criteria (every metric), distances, similarity and ranking
     under any order of the alternatives; the reference-point score under any order of the criteria.
   - pipelines, step by step: every rational scaler (and the rational cores of VectorScaler / StandarScaler)
     commutes with a reordering of the alternatives, column by column, up to ==.
     A chain of any number of such scalers followed by WSM / RatioMOORA ranks every alternative the same
     whatever the listing order (the whole pipeline theorem for the linear methods).
   Pipelines ending in the other methods, or containing inverters / weighters, compose the same facts but are
   covered by the two-presentation correspondence only. *)
From Coq Require Import ZArith QArith List Bool Arith Permutation.
From Coq Require Import Reals.
From SKC Require Import Base.QBool Base.QList Base.QRank Model.Agg Model.Electre Theory.Agg Theory.RankFacts Theory.Invariance
  Theory.RealClosing Theory.MultiMoora Theory.RankPerm Theory.RankPerm2 Theory.ElectreInv Theory.CritPerm Theory.ScalerPerm Theory.PipelinePerm.
From SKC Require Import Model.Transform.
Import ListNotations.

(* ---- order of the alternatives -------------------------------------------------------------------- *)
Theorem C05_scores_follow_their_alternative : forall (f : list Q -> Q) (named named' : list (Z * list Q)),
  Permutation named named' ->
  Permutation (map (fun p => (fst p, f (snd p))) named) (map (fun p => (fst p, f (snd p))) named').
Proof. exact (@named_scores_row_order_irrelevant Q). Qed.
Print Assumptions C05_scores_follow_their_alternative.

Theorem C05_ideal_does_not_depend_on_row_order : forall objs rows rows' j,
  Permutation rows rows' -> (j < length objs)%nat ->
  nth j (col_opt objs rows) 0 == nth j (col_opt objs rows') 0.
Proof. exact col_opt_row_order_irrelevant. Qed.
Print Assumptions C05_ideal_does_not_depend_on_row_order.

Theorem C05_anti_ideal_does_not_depend_on_row_order : forall objs rows rows' j,
  Permutation rows rows' -> (j < length objs)%nat ->
  nth j (col_anti objs rows) 0 == nth j (col_anti objs rows') 0.
Proof. exact col_anti_row_order_irrelevant. Qed.
Print Assumptions C05_anti_ideal_does_not_depend_on_row_order.

(* ---- order of the criteria ---------------------------------------------------------------------------- *)
Theorem C05_weighted_sum_criteria_order : forall r w r' w',
  Permutation (combine r w) (combine r' w') -> dot r w == dot r' w'.
Proof. exact dot_criteria_order_irrelevant. Qed.
Print Assumptions C05_weighted_sum_criteria_order.

Theorem C05_ratio_criteria_order : forall objs w r objs' w' r',
  Permutation (triples objs w r) (triples objs' w' r') ->
  dot r (signed_weights objs w) == dot r' (signed_weights objs' w').
Proof. exact ratio_criteria_order_irrelevant. Qed.
Print Assumptions C05_ratio_criteria_order.

(* ---- equal scores (up to ==) give equal rankings; positive affine changes too -------------------- *)
Theorem C05_equal_scores_equal_ranking : forall xs ys, Forall2 Qeq xs ys -> dense_rank_Q xs = dense_rank_Q ys.
Proof. exact dense_rank_Q_ext. Qed.
Print Assumptions C05_equal_scores_equal_ranking.

Theorem C05_ranking_invariant_under_positive_affine_change : forall rev c d L S,
  0 < c -> Forall2 Qeq L (map (fun x => c * x + d) S) -> rank_values rev L = rank_values rev S.
Proof. exact rank_values_affine. Qed.
Print Assumptions C05_ranking_invariant_under_positive_affine_change.

(* ---- multiplying every weight by the same positive constant ------------------------------------- *)
Theorem C05_wsm_weight_scale : forall c w rows,
  0 < c -> rank_values true (wsm_scores (map (Qmult c) w) rows) = rank_values true (wsm_scores w rows).
Proof. exact wsm_rank_scale_invariant. Qed.
Print Assumptions C05_wsm_weight_scale.

Theorem C05_ratio_weight_scale : forall c objs w rows,
  0 < c -> fst (ratio objs (map (Qmult c) w) rows) = fst (ratio objs w rows).
Proof. exact ratio_rank_scale_invariant. Qed.
Print Assumptions C05_ratio_weight_scale.

Theorem C05_refpoint_weight_scale : forall c w rp r,
  0 <= c -> length w = length r -> length rp = length r ->
  refpoint_score_row (map (Qmult c) w) rp r == c * refpoint_score_row w rp r.
Proof. exact refpoint_row_scale. Qed.
Print Assumptions C05_refpoint_weight_scale.

Theorem C05_topsis_closeness_scale : forall k db dw,
  0 < k -> 0 <= db -> 0 <= dw ->
  match similarity db dw, similarity (k * db) (k * dw) with
  | Some s, Some s' => s == s'
  | None, None => True
  | _, _ => False
  end.
Proof. exact similarity_scale_invariant. Qed.
Print Assumptions C05_topsis_closeness_scale.

(* euclidean TOPSIS, WPM, FMF over the reals: multiplying every weight by c > 0 *)
Theorem C05_topsis_euclidean_weight_scale : forall (k a c : R),
  (0 < k)%R -> (0 <= a)%R -> (0 <= c)%R -> (0 < sqrt a + sqrt c)%R ->
  closeness (k * k * a) (k * k * c) = closeness a c.
Proof. exact closeness_scale. Qed.
Print Assumptions C05_topsis_euclidean_weight_scale.

Theorem C05_wpm_weight_scale : forall c w a b, (0 < c)%R ->
  ((wlog (map (Rmult c) w) a < wlog (map (Rmult c) w) b)%R <-> (wlog w a < wlog w b)%R).
Proof. exact wpm_weight_scale. Qed.
Print Assumptions C05_wpm_weight_scale.

(* FMF: every alternative's score moves by the same constant, so every comparison is unchanged *)
Theorem C05_fmf_weight_scale : forall c objs w a,
  (0 < c)%R -> Forall (fun x => (0 < x)%R) w -> Forall (fun x => (0 < x)%R) a ->
  length w = length objs -> length a = length objs ->
  RealClosing.fmf objs (map (Rmult c) w) a = (RealClosing.fmf objs w a + fmf_shift objs c)%R.
Proof. exact fmf_weight_scale. Qed.
Print Assumptions C05_fmf_weight_scale.

(* ---- whole rankings follow the alternatives ------------------------------------------------------ *)
(* sigma lists, for each position of the second presentation, the position in the first *)
Theorem C05_ranking_follows_alternatives_rowwise : forall rev (f : list Q -> Q) sigma rows,
  Permutation sigma (seq 0 (length rows)) ->
  rank_values rev (map f (reindex [] sigma rows)) = reindex 0%nat sigma (rank_values rev (map f rows)).
Proof. exact rowwise_ranking_follows_alternatives. Qed.
Print Assumptions C05_ranking_follows_alternatives_rowwise.

Theorem C05_refpoint_ranking_follows_alternatives : forall objs w sigma rows,
  Permutation sigma (seq 0 (length rows)) ->
  rank_values false (refpoint_scores objs w (reindex [] sigma rows)) =
  reindex 0%nat sigma (rank_values false (refpoint_scores objs w rows)).
Proof. exact refpoint_ranking_follows_alternatives. Qed.
Print Assumptions C05_refpoint_ranking_follows_alternatives.

(* MultiMOORA: the final score is a function of the alternative's own rank row and the multiset of rows *)
Theorem C05_multimoora_score_follows_alternatives : forall rm rm',
  Forall (fun r => length r = 3%nat) rm -> Permutation rm rm' ->
  Permutation (combine rm (mm_score rm)) (combine rm' (mm_score rm')).
Proof.
  intros rm rm' H P.
  rewrite (mm_score_is_spec rm H), (mm_score_is_spec rm' (Permutation_Forall P H)).
  exact (mm_spec_row_order_irrelevant rm rm' P).
Qed.
Print Assumptions C05_multimoora_score_follows_alternatives.

(* ---- ELECTRE ----------------------------------------------------------------------------------------- *)
Theorem C05_electre_concordance_criteria_order : forall objs w ra rb objs' w' ra' rb',
  Permutation (quads objs w ra rb) (quads objs' w' ra' rb') ->
  conc_cell objs w ra rb == conc_cell objs' w' ra' rb'.
Proof. exact conc_criteria_order_irrelevant. Qed.
Print Assumptions C05_electre_concordance_criteria_order.

Theorem C05_electre_discordance_criteria_order : forall objs ra rb objs' ra' rb' m rows m' rows',
  Permutation (trips objs ra rb) (trips objs' ra' rb') -> Permutation (cols m rows) (cols m' rows') ->
  disc_num objs ra rb == disc_num objs' ra' rb' /\ max_range m rows == max_range m' rows'.
Proof.
  intros. split; [apply disc_num_criteria_order_irrelevant|apply max_range_criteria_order_irrelevant]; assumption.
Qed.
Print Assumptions C05_electre_discordance_criteria_order.

Theorem C05_electre_weight_comparison_criteria_order : forall objs w ra rb objs' w' ra' rb',
  Permutation (quads objs w ra rb) (quads objs' w' ra' rb') ->
  wor_sum objs w ra rb == wor_sum objs' w' ra' rb' /\
  wor_called_sum objs w ra rb == wor_called_sum objs' w' ra' rb'.
Proof.
  intros. split; [apply wor_sum_criteria_order_irrelevant|apply wor_called_sum_criteria_order_irrelevant]; assumption.
Qed.
Print Assumptions C05_electre_weight_comparison_criteria_order.

Theorem C05_electre_tables_follow_alternatives : forall objs w sigma rows i j,
  Permutation sigma (seq 0 (length rows)) -> (i < length rows)%nat -> (j < length rows)%nat ->
  qget (concordance objs w (reindex [] sigma rows)) i j =
    qget (concordance objs w rows) (nth i sigma 0%nat) (nth j sigma 0%nat) /\
  qget (discordance objs (reindex [] sigma rows)) i j ==
    qget (discordance objs rows) (nth i sigma 0%nat) (nth j sigma 0%nat).
Proof.
  intros. split; [apply concordance_follows_alternatives|apply discordance_follows_alternatives]; assumption.
Qed.
Print Assumptions C05_electre_tables_follow_alternatives.

Theorem C05_electre_outranking_follows_alternatives : forall n sg conc conc' disc disc' p q i j,
  Permutation (map sg (seq 0 n)) (seq 0 n) ->
  (forall i j, (i < n)%nat -> (j < n)%nat -> qget conc' i j == qget conc (sg i) (sg j)) ->
  (forall i j, (i < n)%nat -> (j < n)%nat -> qget disc' i j == qget disc (sg i) (sg j)) ->
  (i < n)%nat -> (j < n)%nat ->
  bget (outrank_of n p q conc' disc') i j = bget (outrank_of n p q conc disc) (sg i) (sg j).
Proof. intros n sg conc conc' disc disc' p q i j P Hc Hd. exact (outrank_follows_alternatives n sg P conc conc' disc disc' Hc Hd p q i j). Qed.
Print Assumptions C05_electre_outranking_follows_alternatives.

Theorem C05_electre_kernel_follows_alternatives : forall n sg (t t' : list (list bool)) i,
  Permutation (map sg (seq 0 n)) (seq 0 n) ->
  (forall a b, (a < n)%nat -> (b < n)%nat -> bget t' a b = bget t (sg a) (sg b)) ->
  (i < n)%nat -> nth i (kernel n t') false = nth (sg i) (kernel n t) false.
Proof. intros n sg t t' i P. exact (kernel_follows_alternatives n sg P t t' i). Qed.
Print Assumptions C05_electre_kernel_follows_alternatives.

Theorem C05_electre2_ranking_follows_alternatives : forall n sg (ts tw ts' tw' : list (list bool)),
  Permutation (map sg (seq 0 n)) (seq 0 n) ->
  (forall i j, (i < n)%nat -> (j < n)%nat -> bget ts' i j = bget ts (sg i) (sg j)) ->
  (forall i j, (i < n)%nat -> (j < n)%nat -> bget tw' i j = bget tw (sg i) (sg j)) ->
  match electre2_rank n ts tw, electre2_rank n ts' tw' with
  | Some (d, iv, sc, rk), Some (d', iv', sc', rk') =>
      follows n sg d d' /\ follows n sg iv iv' /\ follows n sg rk rk'
  | None, None => True
  | _, _ => False
  end.
Proof. intros n sg ts tw ts' tw' P. exact (electre2_rank_follows_alternatives n sg P ts tw ts' tw'). Qed.
Print Assumptions C05_electre2_ranking_follows_alternatives.

(* ---- TOPSIS and the reference point, remaining orders ------------------------------------------------- *)
Theorem C05_topsis_distance_criteria_order : forall mt a b a' b',
  Permutation (combine a b) (combine a' b') -> dist mt a b == dist mt a' b'.
Proof. exact dist_criteria_order_irrelevant. Qed.
Print Assumptions C05_topsis_distance_criteria_order.

Theorem C05_refpoint_score_criteria_order : forall w rp r w' rp' r',
  Permutation (wtrips w r rp) (wtrips w' r' rp') ->
  refpoint_score_row w rp r == refpoint_score_row w' rp' r'.
Proof. exact refpoint_row_criteria_order_irrelevant. Qed.
Print Assumptions C05_refpoint_score_criteria_order.

Theorem C05_topsis_result_follows_alternatives : forall mt objs w sigma rows,
  Permutation sigma (seq 0 (length rows)) ->
  match topsis_rational mt objs w rows, topsis_rational mt objs w (reindex [] sigma rows) with
  | Ok (rk, s), Ok (rk', s') => rk' = reindex 0%nat sigma rk /\ Forall2 Qeq s' (reindex 0 sigma s)
  | Err _, Err _ => True
  | _, _ => False
  end.
Proof. exact topsis_result_follows_alternatives. Qed.
Print Assumptions C05_topsis_result_follows_alternatives.

(* ---- pipeline steps commute with reordering the alternatives --------------------------------------------- *)
Theorem C05_rational_scalers_follow_alternatives : forall m sigma rows j,
  Permutation sigma (seq 0 (length rows)) -> (j < m)%nat ->
  forall f, (f = sum_scale \/ f = maxabs_scale \/ (exists lo hi, f = minmax_scale lo hi) \/ f = push_neg \/
             exists e, f = add_zero e) ->
  Forall2 Qeq (col (on_matrix m f (reindex [] sigma rows)) j) (reindex 0 sigma (col (on_matrix m f rows) j)).
Proof. exact rational_scalers_follow_alternatives. Qed.
Print Assumptions C05_rational_scalers_follow_alternatives.

Theorem C05_irrational_scaler_cores_do_not_depend_on_order : forall sigma v,
  Permutation sigma (seq 0 (length v)) ->
  sumsq (reindex 0 sigma v) == sumsq v /\ mean (reindex 0 sigma v) == mean v /\ pvar (reindex 0 sigma v) == pvar v.
Proof. exact cores_reindex. Qed.
Print Assumptions C05_irrational_scaler_cores_do_not_depend_on_order.

Theorem C05_cenit_scaler_follows_alternatives : forall sigma v mx,
  Permutation sigma (seq 0 (length v)) ->
  Forall2 Qeq (cenit_col mx (reindex 0 sigma v)) (reindex 0 sigma (cenit_col mx v)).
Proof. intros sigma v mx P. exact (cenit_col_reindex sigma v P mx). Qed.
Print Assumptions C05_cenit_scaler_follows_alternatives.

(* a whole pipeline: any chain of matrix scalers that respect == and commute with reordering (the listed rational
   scalers do), followed by a weighted sum (WSM; RatioMOORA with its signed weights) *)
Theorem C05_scaler_chain_then_linear_method_follows_alternatives : forall m fs wv sigma rows,
  Permutation sigma (seq 0 (length rows)) -> Forall (good_step sigma) fs ->
  rank_values true (wsm_scores wv (scale_all m fs (reindex [] sigma rows))) =
  reindex 0%nat sigma (rank_values true (wsm_scores wv (scale_all m fs rows))).
Proof. exact scaled_linear_ranking_follows_alternatives. Qed.
Print Assumptions C05_scaler_chain_then_linear_method_follows_alternatives.

Theorem C05_rational_scalers_are_admissible_steps : forall sigma,
  good_step sigma sum_scale /\ good_step sigma maxabs_scale /\ (forall lo hi, good_step sigma (minmax_scale lo hi)) /\
  good_step sigma push_neg /\ forall e, good_step sigma (add_zero e).
Proof. exact rational_scalers_are_good_steps. Qed.
Print Assumptions C05_rational_scalers_are_admissible_steps.

Example C05_example :
  dot [1; 2; 3] [4; 5; 6] == dot [3; 1; 2] [6; 4; 5] /\
  rank_values true (wsm_scores [2; 4] [[1; 2]; [3; 0]; [1; 2]]) = rank_values true (wsm_scores [1; 2] [[1; 2]; [3; 0]; [1; 2]]).
Proof. vm_compute. split; reflexivity. Qed.
