(* C05 — rankings do not depend on how the decision problem is written down.
   PARTIAL: the theorems cover the order of alternatives (all row-wise scores; ideal / reference
   point), the order of criteria and the weight scale for the linear scores (WSM, RatioMOORA), the
   weight scale for ReferencePointMOORA and for TOPSIS closeness; labels never enter a kernel (by
   typing: the kernels take no labels).  The remaining combinations (TOPSIS distances under criteria
   permutation, WPM / FMF, MultiMOORA, ELECTRE, pipelines) are covered by the correspondence only. *)
From Coq Require Import ZArith QArith List Bool Arith Permutation.
From Coq Require Import Reals.
From SKC Require Import Base.QBool Base.QList Base.QRank Model.Agg Theory.Agg Theory.RankFacts Theory.Invariance Theory.RealClosing.
Import ListNotations.

(* ---- order of the alternatives -------------------------------------------------------------------- *)
Theorem C05_scores_follow_their_alternative : forall (f : list Q -> Q) (named named' : list (Z * list Q)),
  Permutation named named' ->
  Permutation (map (fun p => (fst p, f (snd p))) named) (map (fun p => (fst p, f (snd p))) named').
Proof. exact (@named_scores_row_order_irrelevant Q). Qed.
Print Assumptions C05_scores_follow_their_alternative.

Theorem C05_ideal_does_not_depend_on_row_order : forall objs rows rows' j,
  Permutation rows rows' -> (j < length objs)%nat ->
  nth j (col_opt objs rows) 0 == nth j (col_opt objs rows') 0.
Proof. exact col_opt_row_order_irrelevant. Qed.
Print Assumptions C05_ideal_does_not_depend_on_row_order.

Theorem C05_anti_ideal_does_not_depend_on_row_order : forall objs rows rows' j,
  Permutation rows rows' -> (j < length objs)%nat ->
  nth j (col_anti objs rows) 0 == nth j (col_anti objs rows') 0.
Proof. exact col_anti_row_order_irrelevant. Qed.
Print Assumptions C05_anti_ideal_does_not_depend_on_row_order.

(* ---- order of the criteria ---------------------------------------------------------------------------- *)
Theorem C05_weighted_sum_criteria_order : forall r w r' w',
  Permutation (combine r w) (combine r' w') -> dot r w == dot r' w'.
Proof. exact dot_criteria_order_irrelevant. Qed.
Print Assumptions C05_weighted_sum_criteria_order.

Theorem C05_ratio_criteria_order : forall objs w r objs' w' r',
  Permutation (triples objs w r) (triples objs' w' r') ->
  dot r (signed_weights objs w) == dot r' (signed_weights objs' w').
Proof. exact ratio_criteria_order_irrelevant. Qed.
Print Assumptions C05_ratio_criteria_order.

(* ---- equal scores (up to ==) give equal rankings; positive affine changes too -------------------- *)
Theorem C05_equal_scores_equal_ranking : forall xs ys, Forall2 Qeq xs ys -> dense_rank_Q xs = dense_rank_Q ys.
Proof. exact dense_rank_Q_ext. Qed.
Print Assumptions C05_equal_scores_equal_ranking.

Theorem C05_ranking_invariant_under_positive_affine_change : forall rev c d L S,
  0 < c -> Forall2 Qeq L (map (fun x => c * x + d) S) -> rank_values rev L = rank_values rev S.
Proof. exact rank_values_affine. Qed.
Print Assumptions C05_ranking_invariant_under_positive_affine_change.

(* ---- multiplying every weight by the same positive constant ------------------------------------- *)
Theorem C05_wsm_weight_scale : forall c w rows,
  0 < c -> rank_values true (wsm_scores (map (Qmult c) w) rows) = rank_values true (wsm_scores w rows).
Proof. exact wsm_rank_scale_invariant. Qed.
Print Assumptions C05_wsm_weight_scale.

Theorem C05_ratio_weight_scale : forall c objs w rows,
  0 < c -> fst (ratio objs (map (Qmult c) w) rows) = fst (ratio objs w rows).
Proof. exact ratio_rank_scale_invariant. Qed.
Print Assumptions C05_ratio_weight_scale.

Theorem C05_refpoint_weight_scale : forall c w rp r,
  0 <= c -> length w = length r -> length rp = length r ->
  refpoint_score_row (map (Qmult c) w) rp r == c * refpoint_score_row w rp r.
Proof. exact refpoint_row_scale. Qed.
Print Assumptions C05_refpoint_weight_scale.

Theorem C05_topsis_closeness_scale : forall k db dw,
  0 < k -> 0 <= db -> 0 <= dw ->
  match similarity db dw, similarity (k * db) (k * dw) with
  | Some s, Some s' => s == s'
  | None, None => True
  | _, _ => False
  end.
Proof. exact similarity_scale_invariant. Qed.
Print Assumptions C05_topsis_closeness_scale.

(* euclidean TOPSIS, WPM, FMF over the reals: multiplying every weight by c > 0 *)
Theorem C05_topsis_euclidean_weight_scale : forall (k a c : R),
  (0 < k)%R -> (0 <= a)%R -> (0 <= c)%R -> (0 < sqrt a + sqrt c)%R ->
  closeness (k * k * a) (k * k * c) = closeness a c.
Proof. exact closeness_scale. Qed.
Print Assumptions C05_topsis_euclidean_weight_scale.

Theorem C05_wpm_weight_scale : forall c w a b, (0 < c)%R ->
  ((wlog (map (Rmult c) w) a < wlog (map (Rmult c) w) b)%R <-> (wlog w a < wlog w b)%R).
Proof. exact wpm_weight_scale. Qed.
Print Assumptions C05_wpm_weight_scale.

(* FMF: every alternative's score moves by the same constant, so every comparison is unchanged *)
Theorem C05_fmf_weight_scale : forall c objs w a,
  (0 < c)%R -> Forall (fun x => (0 < x)%R) w -> Forall (fun x => (0 < x)%R) a ->
  length w = length objs -> length a = length objs ->
  RealClosing.fmf objs (map (Rmult c) w) a = (RealClosing.fmf objs w a + fmf_shift objs c)%R.
Proof. exact fmf_weight_scale. Qed.
Print Assumptions C05_fmf_weight_scale.

Example C05_example :
  dot [1; 2; 3] [4; 5; 6] == dot [3; 1; 2] [6; 4; 5] /\
  rank_values true (wsm_scores [2; 4] [[1; 2]; [3; 0]; [1; 2]]) = rank_values true (wsm_scores [1; 2] [[1; 2]; [3; 0]; [1; 2]]).
Proof. vm_compute. split; reflexivity. Qed.
