(* C12 — preprocessing never reverses a preference between two alternatives. *)
From Coq Require Import ZArith QArith List Bool Arith.
From SKC Require Import Base.QBool Base.QList Model.Dominance Model.Transform Theory.Dominance Theory.OrderPres
  Theory.PipelinePerm Theory.PipelineOrder.
Import ListNotations.

Theorem C12_increasing_map_keeps_every_preference : forall (P : Q -> Prop) f mx v i j,
  strictly_increasing_on P f -> (forall x, In x v -> P x) ->
  (i < length v)%nat -> (j < length v)%nat ->
  better mx (nth i (map f v) 0) (nth j (map f v) 0) = better mx (nth i v 0) (nth j v 0).
Proof. exact map_preserves_preferences. Qed.
Print Assumptions C12_increasing_map_keeps_every_preference.

(* division by any positive constant (SumScaler / VectorScaler / MaxAbsScaler on positive data,
   StandarScaler's division by the standard deviation) is strictly increasing *)
Theorem C12_division_by_positive_is_increasing : forall s,
  0 < s -> strictly_increasing_on (fun _ => True) (fun x => x / s).
Proof. exact div_pos_increasing. Qed.
Print Assumptions C12_division_by_positive_is_increasing.

Theorem C12_sum_scaler : forall (mx : bool) v i j,
  0 < qsum v -> (i < length v)%nat -> (j < length v)%nat ->
  better mx (nth i (sum_scale v) 0) (nth j (sum_scale v) 0) = better mx (nth i v 0) (nth j v 0).
Proof. exact sum_scale_order. Qed.
Print Assumptions C12_sum_scaler.

Theorem C12_maxabs_scaler : forall (mx : bool) v i j,
  (i < length v)%nat -> (j < length v)%nat ->
  better mx (nth i (maxabs_scale v) 0) (nth j (maxabs_scale v) 0) = better mx (nth i v 0) (nth j v 0).
Proof. exact maxabs_scale_order. Qed.
Print Assumptions C12_maxabs_scaler.

Theorem C12_minmax_scaler : forall lo hi (mx : bool) v i j,
  lo < hi -> (i < length v)%nat -> (j < length v)%nat ->
  better mx (nth i (minmax_scale lo hi v) 0) (nth j (minmax_scale lo hi v) 0) =
  better mx (nth i v 0) (nth j v 0).
Proof. exact minmax_scale_order. Qed.
Print Assumptions C12_minmax_scaler.

Theorem C12_push_negatives : forall (mx : bool) v i j,
  (i < length v)%nat -> (j < length v)%nat ->
  better mx (nth i (push_neg v) 0) (nth j (push_neg v) 0) = better mx (nth i v 0) (nth j v 0).
Proof. exact push_neg_order. Qed.
Print Assumptions C12_push_negatives.

Theorem C12_add_value_to_zero : forall e (mx : bool) v i j,
  (i < length v)%nat -> (j < length v)%nat ->
  better mx (nth i (add_zero e v) 0) (nth j (add_zero e v) 0) = better mx (nth i v 0) (nth j v 0).
Proof. exact add_zero_order. Qed.
Print Assumptions C12_add_value_to_zero.

(* objective inverters: better-under-MIN before  <->  better-under-MAX after *)
Theorem C12_negate_minimize : forall x y, better true (- x) (- y) = better false x y.
Proof. exact negate_keeps_preference. Qed.
Print Assumptions C12_negate_minimize.

Theorem C12_invert_minimize_on_positive : forall x y,
  0 < x -> 0 < y -> better true (/ x) (/ y) = better false x y.
Proof. exact invert_keeps_preference. Qed.
Print Assumptions C12_invert_minimize_on_positive.

(* consequently dominance (both strict settings) is identical before and after *)
Theorem C12_dominance_invariant : forall strict objs ra rb objs' ra' rb',
  prefs objs ra rb = prefs objs' ra' rb' ->
  dom_spec strict objs ra rb = dom_spec strict objs' ra' rb'.
Proof. exact dominance_invariant. Qed.
Print Assumptions C12_dominance_invariant.

Theorem C12_pointwise_preferences_give_equal_profiles : forall objs ra rb objs' ra' rb',
  length objs = length objs' -> length ra = length objs -> length rb = length objs ->
  length ra' = length objs -> length rb' = length objs ->
  (forall j, (j < length objs)%nat ->
     better (nth j objs' true) (nth j ra' 0) (nth j rb' 0) = better (nth j objs true) (nth j ra 0) (nth j rb 0) /\
     better (nth j objs' true) (nth j rb' 0) (nth j ra' 0) = better (nth j objs true) (nth j rb 0) (nth j ra 0)) ->
  prefs objs ra rb = prefs objs' ra' rb'.
Proof. exact prefs_pointwise. Qed.
Print Assumptions C12_pointwise_preferences_give_equal_profiles.

(* ---- whole matrices and pipelines ---------------------------------------------------------------------------- *)
(* one matrix-target step: every pair of alternatives keeps its whole preference profile (criterion by criterion) *)
Theorem C12_matrix_scaler_keeps_every_preference : forall m f objs rows a b,
  length objs = m -> rect m rows -> (a < length rows)%nat -> (b < length rows)%nat ->
  (forall j, (j < m)%nat -> keeps_order (nth j objs true) f (col rows j)) ->
  prefs objs (nth a (on_matrix m f rows) []) (nth b (on_matrix m f rows) []) =
  prefs objs (nth a rows []) (nth b rows []).
Proof. exact scaled_matrix_keeps_every_preference. Qed.
Print Assumptions C12_matrix_scaler_keeps_every_preference.

(* any finite chain of such steps (each order preserving on the columns it actually meets): the dominance relation
   between every pair of alternatives is the same before and after *)
Theorem C12_scaler_chain_keeps_dominance : forall strict m objs fs rows a b,
  length objs = m -> rect m rows -> (a < length rows)%nat -> (b < length rows)%nat ->
  chain_keeps_order m objs fs rows ->
  dom_spec strict objs (nth a (scale_all m fs rows) []) (nth b (scale_all m fs rows) []) =
  dom_spec strict objs (nth a rows []) (nth b rows []).
Proof. exact scaler_chain_keeps_dominance. Qed.
Print Assumptions C12_scaler_chain_keeps_dominance.

Theorem C12_rational_scalers_are_such_steps : forall mx v,
  (0 < qsum v -> keeps_order mx sum_scale v) /\ keeps_order mx maxabs_scale v /\
  (forall lo hi, lo < hi -> keeps_order mx (minmax_scale lo hi) v) /\ keeps_order mx push_neg v /\
  (forall e, keeps_order mx (add_zero e) v).
Proof. exact rational_scalers_keep_order. Qed.
Print Assumptions C12_rational_scalers_are_such_steps.

Example C12_example :
  better false 2 3 = true /\ better true (- (2)) (- (3)) = true /\ better true (/ 2) (/ 3) = true /\
  dom_spec false [true; false] [2; 1] [1; 3] = true /\ dom_spec false [true; true] [2; -(1)] [1; -(3)] = true.
Proof. vm_compute. repeat split. Qed.
