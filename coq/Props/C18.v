(* C18 — untied ranks refine the ranking; comparators align by alternative name. *)
From Coq Require Import ZArith QArith List Bool Arith Permutation.
From SKC Require Import Base.QList Model.Transform Model.Weights Model.Untie Theory.Untie Theory.Argsort Theory.Cmp.
Import ListNotations.

Theorem C18_untied_is_a_permutation_of_1_to_n : forall r, Permutation (untie r) (seq 1 (length r)).
Proof. exact untie_perm. Qed.
Print Assumptions C18_untied_is_a_permutation_of_1_to_n.

(* every strict preference of the original ranking is kept *)
Theorem C18_untied_keeps_strict_preferences : forall r i j,
  (i < length r)%nat -> (j < length r)%nat -> (nth i r 0 < nth j r 0)%nat ->
  (untie_at r i < untie_at r j)%nat.
Proof. exact untie_refines. Qed.
Print Assumptions C18_untied_keeps_strict_preferences.

(* ties are broken by order of appearance *)
Theorem C18_ties_broken_by_order_of_appearance : forall r i j,
  (i < j)%nat -> (j < length r)%nat -> nth i r 0%nat = nth j r 0%nat ->
  (untie_at r i < untie_at r j)%nat.
Proof. exact untie_ties_by_position. Qed.
Print Assumptions C18_ties_broken_by_order_of_appearance.

Theorem C18_untied_equals_original_without_ties : forall r,
  Permutation r (seq 1 (length r)) -> untie r = r.
Proof. exact untie_id_without_ties. Qed.
Print Assumptions C18_untied_equals_original_without_ties.

(* each alternative's rank appears under its own name whatever order the ranking lists them in *)
Theorem C18_frame_cell_by_name : forall names rk rk',
  NoDup (map fst rk) -> Permutation rk rk' -> aligned names rk = aligned names rk'.
Proof. exact frame_cell_by_label. Qed.
Print Assumptions C18_frame_cell_by_name.

Theorem C18_diagonal_distance_is_0 : forall v, v <> [] -> hamming v v == 0.
Proof. exact diag_distance_0. Qed.
Print Assumptions C18_diagonal_distance_is_0.

Theorem C18_diagonal_covariance_is_variance : forall v, scov v v == svar v.
Proof. exact diag_cov_is_var. Qed.
Print Assumptions C18_diagonal_covariance_is_variance.

Theorem C18_diagonal_r2_is_1 : forall v,
  ~ qsum (map (fun x => (x - mean v) * (x - mean v)) v) == 0 -> r2 v v == 1.
Proof. exact diag_r2_1. Qed.
Print Assumptions C18_diagonal_r2_is_1.

(* self-correlation: cov(v,v) = var(v), hence r = 1 for every non-constant ranking *)
Theorem C18_diagonal_correlation_core : forall v, cov v v == pvar v.
Proof. exact diag_corr_core. Qed.
Print Assumptions C18_diagonal_correlation_core.

(* the repaired implementation computes argsort(argsort(rank, stable), stable) + 1: the alternative found at
   position (untied rank - 1) of the stable argsort of the ranks is the alternative itself, i.e. the untied ranking
   is the inverse permutation of the stable argsort - the double argsort IS the specification *)
Theorem C18_untied_is_the_inverse_of_the_stable_argsort : forall r i,
  (i < length r)%nat -> nth_error (argsort r) (nth i (untie r) 0%nat - 1) = Some i.
Proof. exact untied_is_inverse_of_stable_argsort. Qed.
Print Assumptions C18_untied_is_the_inverse_of_the_stable_argsort.

(* tables are square over the rankings, cell (i, j) compares ranking i with ranking j, and the covariance and
   distance tables are symmetric *)
Theorem C18_tables_are_square : forall (A : Type) (f : list Q -> list Q -> A) cs,
  length (cmp_table f cs) = length cs /\ forall row, In row (cmp_table f cs) -> length row = length cs.
Proof. exact @cmp_table_square. Qed.
Print Assumptions C18_tables_are_square.

Theorem C18_table_cell : forall (A : Type) (f : list Q -> list Q -> A) cs i j d,
  (i < length cs)%nat -> (j < length cs)%nat ->
  nth j (nth i (cmp_table f cs) []) d = f (nth i cs []) (nth j cs []).
Proof. exact @cmp_table_cell. Qed.
Print Assumptions C18_table_cell.

Theorem C18_covariance_and_distance_tables_symmetric : forall cs n i j,
  (forall c, In c cs -> length c = n) -> (i < length cs)%nat -> (j < length cs)%nat ->
  nth j (nth i (cmp_table (fun v u => Qred (scov v u)) cs) []) 0%Q
    = nth i (nth j (cmp_table (fun v u => Qred (scov v u)) cs) []) 0%Q /\
  nth j (nth i (cmp_table (fun v u => Qred (hamming v u)) cs) []) 0%Q
    = nth i (nth j (cmp_table (fun v u => Qred (hamming v u)) cs) []) 0%Q.
Proof. exact cmp_tables_symmetric. Qed.
Print Assumptions C18_covariance_and_distance_tables_symmetric.

Example C18_example :
  untie [2; 1; 1]%nat = [3; 1; 2]%nat /\ untie [1; 2; 1]%nat = [1; 3; 2]%nat /\
  untied_rank [2; 3; 1]%nat = [2; 3; 1]%nat /\
  aligned [7; 8; 9]%Z [(9%Z, 1%nat); (7%Z, 2%nat); (8%Z, 2%nat)] = [inject_Z 2; inject_Z 2; inject_Z 1].
Proof. vm_compute. repeat split. Qed.
