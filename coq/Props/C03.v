(* C03 — rankings are well formed and ordered exactly by the score they report. *)
From Coq Require Import QArith ZArith List Bool Arith.
From SKC Require Import Base.QRank Model.Result Model.Electre Theory.Result.
Import ListNotations.

(* one rank per alternative, in input order *)
Theorem C03_one_rank_per_alternative : forall rev xs,
  length (rank_values rev xs) = length xs.
Proof. exact rank_values_length. Qed.
Print Assumptions C03_one_rank_per_alternative.

(* higher-is-better methods (reverse=True): strictly better score <-> strictly smaller rank *)
Theorem C03_better_score_smaller_rank_desc : forall xs i j x y ri rj,
  nth_error xs i = Some x -> nth_error xs j = Some y ->
  nth_error (rank_values true xs) i = Some ri -> nth_error (rank_values true xs) j = Some rj ->
  ((y < x)%Q <-> (ri < rj)%nat).
Proof. exact rank_values_rev_lt. Qed.
Print Assumptions C03_better_score_smaller_rank_desc.

(* lower-is-better methods (reverse=False) *)
Theorem C03_better_score_smaller_rank_asc : forall xs i j x y ri rj,
  nth_error xs i = Some x -> nth_error xs j = Some y ->
  nth_error (rank_values false xs) i = Some ri -> nth_error (rank_values false xs) j = Some rj ->
  ((x < y)%Q <-> (ri < rj)%nat).
Proof. exact dense_rank_Q_lt. Qed.
Print Assumptions C03_better_score_smaller_rank_asc.

Theorem C03_equal_scores_share_rank_desc : forall xs i j x y ri rj,
  nth_error xs i = Some x -> nth_error xs j = Some y ->
  nth_error (rank_values true xs) i = Some ri -> nth_error (rank_values true xs) j = Some rj ->
  ((x == y)%Q <-> ri = rj).
Proof. exact rank_values_rev_eq. Qed.
Print Assumptions C03_equal_scores_share_rank_desc.

Theorem C03_equal_scores_share_rank_asc : forall xs i j x y ri rj,
  nth_error xs i = Some x -> nth_error xs j = Some y ->
  nth_error (rank_values false xs) i = Some ri -> nth_error (rank_values false xs) j = Some rj ->
  ((x == y)%Q <-> ri = rj).
Proof. exact dense_rank_Q_eq. Qed.
Print Assumptions C03_equal_scores_share_rank_asc.

(* the set of ranks is exactly 1..k, k = number of distinct scores: starts at 1, no gaps *)
Theorem C03_ranks_are_1_to_k : forall rev xs r,
  In r (rank_values rev xs) <-> (1 <= r <= rank_count rev xs)%nat.
Proof. exact rank_values_image. Qed.
Print Assumptions C03_ranks_are_1_to_k.

(* the RankResult constructor accepts exactly the vectors whose values are {1..k} *)
Theorem C03_rank_validator : forall vs,
  validate_rank vs = true <->
  (forall r, In r vs <-> (1 <= r <= Z.of_nat (length (dedupZ vs)))%Z).
Proof. exact validate_rank_iff. Qed.
Print Assumptions C03_rank_validator.

(* ... and every ranking the library's ranker produces passes it (so evaluate() never trips on its own output) *)
Theorem C03_produced_rankings_are_well_formed : forall rev xs,
  validate_rank (map Z.of_nat (rank_values rev xs)) = true.
Proof. exact rank_values_validate. Qed.
Print Assumptions C03_produced_rankings_are_well_formed.

(* kernel = exactly the alternatives that no other alternative outranks *)
Theorem C03_kernel_is_not_outranked : forall n outrank j,
  (j < n)%nat ->
  (nth j (kernel n outrank) false = true <-> forall i, (i < n)%nat -> bget outrank i j = false).
Proof. exact kernel_spec. Qed.
Print Assumptions C03_kernel_is_not_outranked.

Theorem C03_one_flag_per_alternative : forall n outrank, length (kernel n outrank) = n.
Proof. exact kernel_length. Qed.
Print Assumptions C03_one_flag_per_alternative.

(* scores listed in strictly increasing order are ranked 1, 2, ..., n - and only strictly: two equal neighbours must
   share a rank (an "already in rank order" shortcut has to test > , not >=) *)
From Coq Require Import Sorting.Sorted.
Theorem C03_strictly_increasing_scores_rank_1_to_n : forall xs,
  StronglySorted Qlt xs -> rank_values false xs = seq 1 (length xs).
Proof. exact dense_rank_Q_of_strictly_increasing. Qed.
Print Assumptions C03_strictly_increasing_scores_rank_1_to_n.

Theorem C03_non_decreasing_is_not_enough :
  exists xs, StronglySorted Qle xs /\ rank_values false xs <> seq 1 (length xs).
Proof. exact non_decreasing_is_not_enough. Qed.
Print Assumptions C03_non_decreasing_is_not_enough.

Example C03_example :
  rank_values true [3#2; 1#2; 6#4; 2#1]%Q = [2; 3; 2; 1]%nat /\
  rank_values false [3#2; 1#2; 6#4; 2#1]%Q = [2; 1; 2; 3]%nat /\
  validate_rank [2; 3; 2; 1]%Z = true /\ validate_rank [1; 3; 3]%Z = false /\
  kernel 3 [[false; true; false]; [false; false; false]; [false; true; false]] = [true; false; true].
Proof. vm_compute. repeat split. Qed.
