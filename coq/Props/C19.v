(* C19 — the rank-reversal test worsens exactly one sub-optimal alternative, in bounds. *)
From Coq Require Import ZArith QArith List Bool Arith.
From SKC Require Import Base.QBool Base.QList Model.Dominance Model.Electre Model.RRT Theory.RRT.
Import ListNotations.

Theorem C19_only_the_mutated_row_changes : forall objs rows k gap u i,
  i <> k -> nth i (mutate objs rows k gap u) [] = nth i rows [].
Proof. exact mutate_one_row. Qed.
Print Assumptions C19_only_the_mutated_row_changes.

Theorem C19_shape_kept : forall objs rows k gap u, length (mutate objs rows k gap u) = length rows.
Proof. exact mutate_keeps_shape. Qed.
Print Assumptions C19_shape_kept.

Theorem C19_recorded_noise_is_the_change_applied : forall objs rows k gap u,
  (k < length rows)%nat ->
  nth k (mutate objs rows k gap u) [] = apply_noise (nth k rows []) (noise_of objs gap u).
Proof. exact mutate_row_is_row_plus_noise. Qed.
Print Assumptions C19_recorded_noise_is_the_change_applied.

(* the checker run on every recorded mutation is sound: direction, bound, one strict change *)
Theorem C19_checker_sound : forall objs gap noise,
  noise_ok objs gap noise = true ->
  (forall o g e, In (o, g, e) (map3 (fun (o : bool) g e => (o, g, e)) objs gap noise) ->
     (o = true -> e <= 0) /\ (o = false -> 0 <= e) /\ qabs e <= g) /\
  (exists e, In e noise /\ ~ e == 0).
Proof. exact noise_ok_sound. Qed.
Print Assumptions C19_checker_sound.

(* and complete for what the implementation constructs from draws in [0, bound] *)
Theorem C19_constructed_noise_passes : forall objs gap u,
  length gap = length objs -> length u = length objs ->
  (forall g, In g gap -> 0 <= g) -> (forall x, In x u -> 0 <= x <= 1) ->
  (exists e, In e (noise_of objs gap u) /\ ~ e == 0) ->
  noise_ok objs gap (noise_of objs gap u) = true.
Proof. exact constructed_noise_is_ok. Qed.
Print Assumptions C19_constructed_noise_passes.

Theorem C19_worsening_never_improves : forall (o : bool) x e,
  (o = true -> e <= 0) -> (o = false -> 0 <= e) -> better o (x + e) x = false.
Proof. exact worsening_never_improves. Qed.
Print Assumptions C19_worsening_never_improves.

(* schedule: (n-1)*repeat runs, every non-best alternative exactly once per repetition *)
Theorem C19_number_of_runs : forall nonbest repeat,
  length (schedule nonbest repeat) = (length nonbest * repeat)%nat.
Proof. exact schedule_length. Qed.
Print Assumptions C19_number_of_runs.

Theorem C19_who_is_mutated_when : forall nonbest repeat it a,
  In (it, a) (schedule nonbest repeat) <-> ((it < repeat)%nat /\ In a nonbest).
Proof. exact schedule_spec. Qed.
Print Assumptions C19_who_is_mutated_when.

Theorem C19_once_per_repetition : forall nonbest repeat,
  NoDup nonbest -> NoDup (schedule nonbest repeat).
Proof. exact schedule_once_per_repetition. Qed.
Print Assumptions C19_once_per_repetition.

(* termination of the rejection loop needs a positive gap: with all gaps zero it never ends
   (the known finding); when it ends, at least one criterion strictly changed *)
Theorem C19_zero_gaps_never_terminate : forall objs gap draws fuel t,
  (forall g, In g gap -> g == 0) -> draw_loop fuel objs gap draws t = None.
Proof. exact zero_gaps_loop_never_ends. Qed.
Print Assumptions C19_zero_gaps_never_terminate.

Theorem C19_accepted_noise_is_nonzero : forall objs gap draws fuel t e,
  draw_loop fuel objs gap draws t = Some e -> exists x, In x e /\ ~ x == 0.
Proof. exact loop_result_is_nonzero. Qed.
Print Assumptions C19_accepted_noise_is_nonzero.

Example C19_example :
  max_abs_noises LMedian 2 [[3; 1]; [1; 4]; [2; 2]] = [[qabs (3 - 1); qabs (1 - 4)]; [qabs (1 - 2); qabs (4 - 2)];
     map Model.Impute.median (cols 2 [[qabs (3 - 1); qabs (1 - 4)]; [qabs (1 - 2); qabs (4 - 2)]])] /\
  noise_ok [true; false] [2; 3] [-(1); 3] = true /\ noise_ok [true; false] [2; 3] [1; 0] = false /\
  noise_ok [true; false] [2; 3] [0; 0] = false /\ noise_ok [true; false] [2; 3] [-(3); 0] = false /\
  schedule [7; 8]%Z 2 = [(0%nat, 7%Z); (0%nat, 8%Z); (1%nat, 7%Z); (1%nat, 8%Z)].
Proof. vm_compute. repeat split. Qed.
