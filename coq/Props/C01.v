(* C01 — each criterion keeps its own objective, weight, dtype and data under any selection. *)
From Coq Require Import ZArith QArith List Bool Arith.
From SKC Require Import Model.Agg Model.Select Theory.Select.
Import ListNotations.

(* one selection / copy / round trip: every surviving criterion, looked up BY LABEL, has
   exactly its own objective, weight, dtype, and every surviving cell its own value *)
Theorem C01_one_step_alignment : forall o d d',
  wf d -> apply_op o d = Ok d' -> aligned d d'.
Proof. exact apply_op_aligned. Qed.
Print Assumptions C01_one_step_alignment.

(* any finite chain of selections, copies and round trips *)
Theorem C01_chain_alignment : forall ops d d', run_wf ops d d' -> aligned d d'.
Proof. exact run_aligned. Qed.
Print Assumptions C01_chain_alignment.

(* ... stated directly on run_ops: the only side condition is computable - no label / position listed
   twice and positional ranges in slice.indices normal form *)
Theorem C01_chain_alignment_run_ops : forall ops d d',
  wf d -> forallb op_ok ops = true -> run_ops ops d = Ok d' -> aligned d d' /\ wf d'.
Proof. exact run_ops_aligned. Qed.
Print Assumptions C01_chain_alignment_run_ops.

Theorem C01_chain_is_run : forall ops d d', run_wf ops d d' -> run_ops ops d = Ok d'.
Proof. exact run_wf_run. Qed.
Print Assumptions C01_chain_is_run.

(* requested order: the derived matrix lists exactly the requested positions, in order *)
Theorem C01_requested_order : forall rp cp d,
  crits (select rp cp d) = map (fun p => nth p (crits d) 0%Z) cp /\
  alts (select rp cp d) = map (fun p => nth p (alts d) 0%Z) rp.
Proof. exact select_order. Qed.
Print Assumptions C01_requested_order.

(* a list of labels yields exactly those labels in the order written *)
Theorem C01_label_list_order : forall labels ls ps,
  resolve labels (SLabels ls) = Ok ps -> gather 0%Z ps labels = ls.
Proof. exact resolve_labels_order. Qed.
Print Assumptions C01_label_list_order.

Theorem C01_missing_label_refused : forall labels ls,
  (exists l, In l ls /\ ~ In l labels) -> resolve labels (SLabels ls) = Err E_KEY.
Proof. exact resolve_missing_label. Qed.
Print Assumptions C01_missing_label_refused.

Theorem C01_positions_in_range : forall labels s ps,
  resolve labels s = Ok ps -> Forall (fun p => (p < length labels)%nat) ps.
Proof. exact resolve_in_range. Qed.
Print Assumptions C01_positions_in_range.

(* every documented alias resolves to the sense it names (finite table) *)
Theorem C01_alias_table_sound :
  (forall c, In c max_codes -> alias_sense c = Some true) /\
  (forall c, In c min_codes -> alias_sense c = Some false).
Proof. exact alias_table_sound. Qed.
Print Assumptions C01_alias_table_sound.

(* non-vacuity: reversed column selection on a 2x3 matrix with distinct weights *)
Example C01_example :
  let d := {| alts := [10; 11]; crits := [20; 21; 22];
              cells := [[1; 2; 3]; [4; 5; 6]]%Q; objs := [true; false; true];
              wts := [1#10; 2#10; 7#10]%Q; dts := [0; 0; 1] |}%Z in
  match run_ops [OSel SAll (SLabels [22; 20]%Z); OCopy; OSel (SPosRange 1 (-1) (-1)) SAll] d with
  | Ok d' => crits d' = [22; 20]%Z /\ wts d' = [7#10; 1#10]%Q /\ objs d' = [true; true] /\
             alts d' = [11; 10]%Z /\ cells d' = [[6; 4]; [3; 1]]%Q /\
             wt_of d' 22%Z = wt_of d 22%Z
  | Err _ => False
  end.
Proof. vm_compute. repeat split. Qed.
