(* Dense ranking over a type with a decidable strict total order and Leibniz
   equality.  rank1 xs x = 1 + number of distinct elements of xs below x. *)
From Coq Require Import List Arith Lia Bool Permutation Sorting.Sorted.
Import ListNotations.

Section DenseRank.
  Variable A : Type.
  Variable ltb : A -> A -> bool.
  Variable eq_dec : forall x y : A, {x = y} + {x <> y}.
  Hypothesis ltb_irrefl : forall x, ltb x x = false.
  Hypothesis ltb_trans : forall x y z, ltb x y = true -> ltb y z = true -> ltb x z = true.
  Hypothesis ltb_total : forall x y, ltb x y = true \/ x = y \/ ltb y x = true.

  Fixpoint dedup (l : list A) : list A :=
    match l with
    | [] => []
    | x :: t => if in_dec eq_dec x t then dedup t else x :: dedup t
    end.

  Definition below (xs : list A) (x : A) : list A :=
    dedup (filter (fun y => ltb y x) xs).

  Definition rank1 (xs : list A) (x : A) : nat := S (length (below xs x)).

  Definition dense_rank (xs : list A) : list nat := map (rank1 xs) xs.

  Lemma dedup_In l x : In x (dedup l) <-> In x l.
  Proof.
    induction l as [|a t IH]; simpl; [tauto|].
    destruct (in_dec eq_dec a t) as [Hin|Hnin]; simpl; rewrite ?IH.
    - split; [tauto|]. intros [->|H]; auto.
    - tauto.
  Qed.

  Lemma dedup_NoDup l : NoDup (dedup l).
  Proof.
    induction l as [|a t IH]; simpl; [constructor|].
    destruct (in_dec eq_dec a t) as [Hin|Hnin]; auto.
    constructor; auto. rewrite dedup_In. exact Hnin.
  Qed.

  Lemma below_In xs x y : In y (below xs x) <-> In y xs /\ ltb y x = true.
  Proof. unfold below. rewrite dedup_In, filter_In. tauto. Qed.

  Lemma below_NoDup xs x : NoDup (below xs x).
  Proof. apply dedup_NoDup. Qed.

  Lemma dense_rank_length xs : length (dense_rank xs) = length xs.
  Proof. apply map_length. Qed.

  Lemma rank1_le xs x y : ltb x y = true \/ x = y -> rank1 xs x <= rank1 xs y.
  Proof.
    intros H. unfold rank1. apply le_n_S.
    apply NoDup_incl_length; [apply below_NoDup|].
    intros z Hz. apply below_In in Hz. destruct Hz as [Hin Hlt].
    apply below_In. split; auto.
    destruct H as [H| ->]; eauto.
  Qed.

  Lemma rank1_lt xs x y : In x xs -> ltb x y = true -> rank1 xs x < rank1 xs y.
  Proof.
    intros Hin Hlt. unfold rank1. apply le_n_S.
    change (length (x :: below xs x) <= length (below xs y)).
    apply NoDup_incl_length.
    - constructor; [|apply below_NoDup].
      rewrite below_In. intros [_ H]. rewrite ltb_irrefl in H. discriminate.
    - intros z [<-|Hz].
      + apply below_In; auto.
      + apply below_In in Hz. destruct Hz as [Hz1 Hz2].
        apply below_In. split; eauto.
  Qed.

  Theorem rank1_lt_iff xs x y : In x xs -> In y xs ->
    (ltb x y = true <-> rank1 xs x < rank1 xs y).
  Proof.
    intros Hx Hy. split; [apply rank1_lt; auto|].
    intros Hr. destruct (ltb_total x y) as [H|[H|H]]; auto.
    - subst. lia.
    - apply (rank1_lt xs) in H; auto. lia.
  Qed.

  Theorem rank1_eq_iff xs x y : In x xs -> In y xs ->
    (x = y <-> rank1 xs x = rank1 xs y).
  Proof.
    intros Hx Hy. split; [intros ->; reflexivity|].
    intros Hr. destruct (ltb_total x y) as [H|[H|H]]; auto.
    - apply (rank1_lt xs) in H; auto. lia.
    - apply (rank1_lt xs) in H; auto. lia.
  Qed.

  (* ranks are >= 1 and <= number of distinct values *)
  Lemma rank1_pos xs x : 1 <= rank1 xs x.
  Proof. unfold rank1. lia. Qed.

  Lemma rank1_bound xs x : In x xs -> rank1 xs x <= length (dedup xs).
  Proof.
    intros Hin. unfold rank1.
    change (length (x :: below xs x) <= length (dedup xs)).
    apply NoDup_incl_length.
    - constructor; [|apply below_NoDup].
      rewrite below_In. intros [_ H]. rewrite ltb_irrefl in H. discriminate.
    - intros z [<-|Hz]; apply dedup_In; auto.
      apply below_In in Hz. tauto.
  Qed.

  (* no gaps: the ranks of the distinct values are exactly 1..k *)
  Theorem dense_rank_image xs :
    Permutation (map (rank1 xs) (dedup xs)) (seq 1 (length (dedup xs))).
  Proof.
    apply NoDup_Permutation_bis.
    - (* NoDup of the image, by injectivity on members *)
      assert (Hnd := dedup_NoDup xs).
      assert (Hsub : forall z, In z (dedup xs) -> In z xs) by (intros z; apply dedup_In).
      revert Hnd Hsub. generalize (dedup xs) as l.
      induction l as [|a t IH]; simpl; intros Hnd Hsub; [constructor|].
      inversion Hnd as [|? ? Hna Hnt]; subst.
      constructor; [|apply IH; auto].
      rewrite in_map_iff. intros [b [Hb Hbin]].
      apply rank1_eq_iff in Hb; auto. subst. contradiction.
    - rewrite map_length, seq_length. lia.
    - intros r Hr. apply in_map_iff in Hr. destruct Hr as [z [<- Hz]].
      rewrite dedup_In in Hz. apply in_seq.
      pose proof (rank1_pos xs z). pose proof (rank1_bound xs z Hz). lia.
  Qed.

  Corollary dense_rank_surj xs r : 1 <= r <= length (dedup xs) ->
    exists x, In x xs /\ rank1 xs x = r.
  Proof.
    intros Hr.
    assert (In r (seq 1 (length (dedup xs)))) as Hin by (apply in_seq; lia).
    eapply Permutation_in in Hin; [|apply Permutation_sym, dense_rank_image].
    apply in_map_iff in Hin. destruct Hin as [x [Hx Hxin]].
    exists x. split; auto. apply dedup_In; auto.
  Qed.

  (* rank1 depends on xs only through its set of elements *)
  Lemma below_perm_length xs ys x :
    (forall z, In z xs <-> In z ys) -> length (below xs x) = length (below ys x).
  Proof.
    intros H. apply Nat.le_antisymm; apply NoDup_incl_length; try apply below_NoDup;
      intros z Hz; apply below_In in Hz; apply below_In; destruct Hz; split; auto; apply H; auto.
  Qed.

  Lemma rank1_same_set xs ys x :
    (forall z, In z xs <-> In z ys) -> rank1 xs x = rank1 ys x.
  Proof. intros H. unfold rank1. f_equal. apply below_perm_length; auto. Qed.

  (* ---- a strictly increasing list is ranked 1, 2, ..., n (and only such a list may skip the ranking) ------ *)
  Definition slt (a b : A) : Prop := ltb a b = true.

  Lemma sorted_app_l (l1 l2 : list A) : Sorted.StronglySorted slt (l1 ++ l2) -> Sorted.StronglySorted slt l1.
  Proof.
    induction l1 as [|a t IH]; intros H; [constructor|].
    inversion H as [|? ? Ht Hall]; subst. constructor; [apply IH; exact Ht|].
    rewrite Forall_forall in *. intros y Hy. apply Hall. apply in_or_app. left; exact Hy.
  Qed.

  Lemma dedup_sorted l : Sorted.StronglySorted slt l -> dedup l = l.
  Proof.
    induction l as [|a t IH]; intros H; [reflexivity|].
    inversion H as [|? ? Ht Hall]; subst. cbn [dedup].
    destruct (in_dec eq_dec a t) as [Hin|_].
    - rewrite Forall_forall in Hall. specialize (Hall a Hin). unfold slt in Hall. rewrite ltb_irrefl in Hall. discriminate.
    - rewrite IH by exact Ht. reflexivity.
  Qed.

  Lemma filter_sorted pre x suf :
    Sorted.StronglySorted slt (pre ++ x :: suf) -> filter (fun y => ltb y x) (pre ++ x :: suf) = pre.
  Proof.
    induction pre as [|a p IH]; intros H.
    - cbn [app filter]. rewrite ltb_irrefl. inversion H as [|? ? _ Hall]; subst.
      rewrite Forall_forall in Hall. clear H.
      induction suf as [|y t IHt]; [reflexivity|]. cbn [filter].
      destruct (ltb y x) eqn:E.
      + assert (Hxy : ltb x y = true) by (apply Hall; left; reflexivity).
        pose proof (ltb_trans _ _ _ Hxy E) as C. rewrite ltb_irrefl in C. discriminate.
      + apply IHt. intros z Hz. apply Hall. right; exact Hz.
    - cbn [app filter]. inversion H as [|? ? Ht Hall]; subst.
      rewrite Forall_forall in Hall.
      assert (E : ltb a x = true) by (apply Hall; apply in_or_app; right; left; reflexivity).
      rewrite E. f_equal. apply IH. exact Ht.
  Qed.

  Lemma rank1_sorted_prefix pre x suf :
    Sorted.StronglySorted slt (pre ++ x :: suf) -> rank1 (pre ++ x :: suf) x = S (length pre).
  Proof.
    intros H. unfold rank1, below. rewrite (filter_sorted _ _ _ H).
    rewrite dedup_sorted; [reflexivity|]. exact (sorted_app_l _ _ H).
  Qed.

  Lemma map_rank_suffix suf : forall pre,
    Sorted.StronglySorted slt (pre ++ suf) ->
    map (rank1 (pre ++ suf)) suf = seq (S (length pre)) (length suf).
  Proof.
    induction suf as [|x t IH]; intros pre H; [reflexivity|].
    cbn [map length seq]. f_equal.
    - apply rank1_sorted_prefix. exact H.
    - replace (pre ++ x :: t) with ((pre ++ [x]) ++ t) in * by (rewrite <- app_assoc; reflexivity).
      rewrite (IH (pre ++ [x]) H). rewrite app_length. cbn [length]. rewrite Nat.add_1_r. reflexivity.
  Qed.

  Theorem dense_rank_of_strictly_increasing xs :
    Sorted.StronglySorted slt xs -> dense_rank xs = seq 1 (length xs).
  Proof. intros H. exact (map_rank_suffix xs [] H). Qed.

End DenseRank.

(* Invariance under a strictly monotone map between two ordered types. *)
Section Mono.
  Variables A B : Type.
  Variable ltA : A -> A -> bool.
  Variable ltB : B -> B -> bool.
  Variable eqA : forall x y : A, {x = y} + {x <> y}.
  Variable eqB : forall x y : B, {x = y} + {x <> y}.
  Hypothesis ltA_irrefl : forall x, ltA x x = false.
  Hypothesis ltA_trans : forall x y z, ltA x y = true -> ltA y z = true -> ltA x z = true.
  Hypothesis ltA_total : forall x y, ltA x y = true \/ x = y \/ ltA y x = true.
  Hypothesis ltB_irrefl : forall x, ltB x x = false.
  Hypothesis ltB_trans : forall x y z, ltB x y = true -> ltB y z = true -> ltB x z = true.
  Hypothesis ltB_total : forall x y, ltB x y = true \/ x = y \/ ltB y x = true.
  Variable f : A -> B.

  Lemma below_map_length xs x :
    (forall a b, In a xs -> In b xs -> ltB (f a) (f b) = ltA a b) ->
    In x xs ->
    length (below B ltB eqB (map f xs) (f x)) = length (below A ltA eqA xs x).
  Proof.
    intros Hmono Hx.
    assert (Hinj : forall a b, In a xs -> In b xs -> f a = f b -> a = b).
    { intros a b Ha Hb Hab. destruct (ltA_total a b) as [H|[H|H]]; auto.
      - rewrite <- Hmono in H by auto. rewrite Hab, ltB_irrefl in H. discriminate.
      - rewrite <- Hmono in H by auto. rewrite Hab, ltB_irrefl in H. discriminate. }
    apply Nat.le_antisymm.
    - (* image side <= : map back is awkward; use map f (below xs x) ⊇ below (map f xs) (f x) *)
      rewrite <- (map_length f (below A ltA eqA xs x)).
      apply NoDup_incl_length; [apply below_NoDup|].
      intros z Hz. apply below_In in Hz. destruct Hz as [Hz1 Hz2].
      apply in_map_iff in Hz1. destruct Hz1 as [a [<- Ha]].
      apply in_map. apply below_In. split; auto. rewrite <- Hmono; auto.
    - rewrite <- (map_length f (below A ltA eqA xs x)).
      apply NoDup_incl_length.
      + (* NoDup (map f (below xs x)) by injectivity *)
        assert (Hnd := below_NoDup A ltA eqA xs x).
        assert (Hsub : forall z, In z (below A ltA eqA xs x) -> In z xs)
          by (intros z Hz; apply below_In in Hz; tauto).
        revert Hnd Hsub. generalize (below A ltA eqA xs x) as l.
        induction l as [|a t IH]; simpl; intros Hnd Hsub; [constructor|].
        inversion Hnd as [|? ? Hna Hnt]; subst.
        constructor; [|apply IH; auto].
        rewrite in_map_iff. intros [b [Hb Hbin]].
        apply Hinj in Hb; auto. subst. contradiction.
      + intros z Hz. apply in_map_iff in Hz. destruct Hz as [a [<- Ha]].
        apply below_In in Ha. destruct Ha as [Ha1 Ha2].
        apply below_In. split; [apply in_map; auto|]. rewrite Hmono; auto.
  Qed.

  Theorem dense_rank_mono_invariant xs :
    (forall a b, In a xs -> In b xs -> ltB (f a) (f b) = ltA a b) ->
    dense_rank B ltB eqB (map f xs) = dense_rank A ltA eqA xs.
  Proof.
    intros Hmono. unfold dense_rank. rewrite map_map.
    apply map_ext_in. intros x Hx. unfold rank1. f_equal.
    apply below_map_length; auto.
  Qed.
End Mono.
