(* Lists and matrices of rationals: sums, dot products, column extrema,
   transposition.  Definitions only (lemmas are in Theory/QListFacts.v). *)
From Coq Require Import QArith List Bool Arith.
From SKC Require Import Base.QBool.
Import ListNotations.

Definition qmax (a b : Q) : Q := if Qleb a b then b else a.
Definition qmin (a b : Q) : Q := if Qleb a b then a else b.
Definition qabs (a : Q) : Q := if Qleb 0 a then a else - a.

Definition qsum (l : list Q) : Q := fold_right Qplus 0 l.

Fixpoint map2 {A B C} (f : A -> B -> C) (la : list A) (lb : list B) : list C :=
  match la, lb with
  | a :: la', b :: lb' => f a b :: map2 f la' lb'
  | _, _ => []
  end.

Definition dot (a b : list Q) : Q := qsum (map2 Qmult a b).

(* extrema of a non-empty list given by head and tail *)
Definition qmaxl (x : Q) (l : list Q) : Q := fold_left qmax l x.
Definition qminl (x : Q) (l : list Q) : Q := fold_left qmin l x.
Definition lmax (l : list Q) : Q := match l with [] => 0 | x :: t => qmaxl x t end.
Definition lmin (l : list Q) : Q := match l with [] => 0 | x :: t => qminl x t end.

(* column j of a row-major matrix *)
Definition col (rows : list (list Q)) (j : nat) : list Q := map (fun r => nth j r 0) rows.
Definition cols (m : nat) (rows : list (list Q)) : list (list Q) := map (col rows) (seq 0 m).
Definition transpose (m : nat) (rows : list (list Q)) : list (list Q) := cols m rows.

Definition rectb (m : nat) (rows : list (list Q)) : bool :=
  forallb (fun r => Nat.eqb (length r) m) rows.
