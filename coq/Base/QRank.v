(* Dense rank of a list of rationals, by canonicalising into Qc. *)
From Coq Require Import QArith Qcanon List Arith Lia Permutation.
From SKC Require Import Base.DenseRank.
Import ListNotations.

Definition Qc_ltb (x y : Qc) : bool := if Qclt_le_dec x y then true else false.

Lemma Qc_ltb_true x y : Qc_ltb x y = true <-> (x < y)%Qc.
Proof.
  unfold Qc_ltb. destruct (Qclt_le_dec x y) as [H|H]; split; auto; try discriminate.
  intros H'. exfalso. apply (Qclt_not_le _ _ H'). exact H.
Qed.

Lemma Qc_ltb_irrefl x : Qc_ltb x x = false.
Proof.
  destruct (Qc_ltb x x) eqn:E; auto. apply Qc_ltb_true in E.
  exfalso. exact (Qclt_not_eq _ _ E eq_refl).
Qed.

Lemma Qc_ltb_trans x y z : Qc_ltb x y = true -> Qc_ltb y z = true -> Qc_ltb x z = true.
Proof. rewrite !Qc_ltb_true. apply Qclt_trans. Qed.

Lemma Qc_ltb_total x y : Qc_ltb x y = true \/ x = y \/ Qc_ltb y x = true.
Proof.
  rewrite !Qc_ltb_true. destruct (Qc_dec x y) as [[H|H]|H]; auto.
Qed.

Definition dense_rank_Q (xs : list Q) : list nat :=
  dense_rank Qc Qc_ltb Qc_eq_dec (map Q2Qc xs).

(* ranking in the library: reverse=True ranks the negated values *)
Definition rank_values (reverse : bool) (xs : list Q) : list nat :=
  if reverse then dense_rank_Q (map Qopp xs) else dense_rank_Q xs.

Definition distinct_count (xs : list Q) : nat :=
  length (dedup Qc Qc_eq_dec (map Q2Qc xs)).

Lemma Q2Qc_lt x y : (Q2Qc x < Q2Qc y)%Qc <-> (x < y)%Q.
Proof. unfold Qclt. simpl. rewrite !Qred_correct. tauto. Qed.

Lemma Q2Qc_eq x y : Q2Qc x = Q2Qc y <-> (x == y)%Q.
Proof.
  split.
  - intros H. apply (f_equal this) in H. simpl in H.
    rewrite <- (Qred_correct x), <- (Qred_correct y), H. reflexivity.
  - intros H. apply Qc_is_canon. simpl. rewrite !Qred_correct. exact H.
Qed.

Lemma dense_rank_Q_length xs : length (dense_rank_Q xs) = length xs.
Proof. unfold dense_rank_Q. rewrite dense_rank_length, map_length. reflexivity. Qed.

Lemma dense_rank_Q_nth xs i x :
  nth_error xs i = Some x ->
  nth_error (dense_rank_Q xs) i = Some (rank1 Qc Qc_ltb Qc_eq_dec (map Q2Qc xs) (Q2Qc x)).
Proof.
  intros H. unfold dense_rank_Q, dense_rank.
  rewrite nth_error_map, nth_error_map, H. reflexivity.
Qed.

Theorem dense_rank_Q_lt xs i j x y ri rj :
  nth_error xs i = Some x -> nth_error xs j = Some y ->
  nth_error (dense_rank_Q xs) i = Some ri -> nth_error (dense_rank_Q xs) j = Some rj ->
  ((x < y)%Q <-> (ri < rj)%nat).
Proof.
  intros Hx Hy Hri Hrj.
  rewrite (dense_rank_Q_nth _ _ _ Hx) in Hri. rewrite (dense_rank_Q_nth _ _ _ Hy) in Hrj.
  injection Hri as <-. injection Hrj as <-.
  rewrite <- Q2Qc_lt, <- Qc_ltb_true.
  apply rank1_lt_iff; eauto using Qc_ltb_irrefl, Qc_ltb_trans, Qc_ltb_total;
    apply in_map; eapply nth_error_In; eauto.
Qed.

Theorem dense_rank_Q_eq xs i j x y ri rj :
  nth_error xs i = Some x -> nth_error xs j = Some y ->
  nth_error (dense_rank_Q xs) i = Some ri -> nth_error (dense_rank_Q xs) j = Some rj ->
  ((x == y)%Q <-> ri = rj).
Proof.
  intros Hx Hy Hri Hrj.
  rewrite (dense_rank_Q_nth _ _ _ Hx) in Hri. rewrite (dense_rank_Q_nth _ _ _ Hy) in Hrj.
  injection Hri as <-. injection Hrj as <-.
  rewrite <- Q2Qc_eq.
  apply rank1_eq_iff; eauto using Qc_ltb_irrefl, Qc_ltb_trans, Qc_ltb_total;
    apply in_map; eapply nth_error_In; eauto.
Qed.

(* every rank lies in 1..k and every value of 1..k is the rank of some entry *)
Theorem dense_rank_Q_range xs r :
  In r (dense_rank_Q xs) -> (1 <= r <= distinct_count xs)%nat.
Proof.
  unfold dense_rank_Q, dense_rank, distinct_count. intros H.
  apply in_map_iff in H. destruct H as [q [<- Hq]]. split.
  - apply rank1_pos.
  - apply rank1_bound; auto using Qc_ltb_irrefl.
Qed.

Theorem dense_rank_Q_nogaps xs r :
  (1 <= r <= distinct_count xs)%nat -> In r (dense_rank_Q xs).
Proof.
  unfold distinct_count. intros H.
  apply (dense_rank_surj Qc Qc_ltb Qc_eq_dec Qc_ltb_irrefl Qc_ltb_trans Qc_ltb_total) in H.
  destruct H as [q [Hq <-]]. unfold dense_rank_Q, dense_rank. apply in_map. exact Hq.
Qed.

(* pointwise Qeq lists have the same ranks *)
Lemma map_Q2Qc_ext xs ys : Forall2 Qeq xs ys -> map Q2Qc xs = map Q2Qc ys.
Proof.
  induction 1 as [|x y xs ys Hxy _ IH]; simpl; [reflexivity|].
  f_equal; auto. apply Q2Qc_eq. exact Hxy.
Qed.

Theorem dense_rank_Q_ext xs ys : Forall2 Qeq xs ys -> dense_rank_Q xs = dense_rank_Q ys.
Proof. intros H. unfold dense_rank_Q. rewrite (map_Q2Qc_ext _ _ H). reflexivity. Qed.

(* invariance under a map that is strictly increasing on a (Qeq-closed) domain
   containing the listed values *)
Theorem dense_rank_Q_mono_invariant (P : Q -> Prop) (f : Q -> Q) xs :
  (forall a b, (a == b)%Q -> P a -> P b) ->
  (forall a b, (a == b)%Q -> (f a == f b)%Q) ->
  (forall a b, P a -> P b -> ((f a < f b)%Q <-> (a < b)%Q)) ->
  (forall a, In a xs -> P a) ->
  dense_rank_Q (map f xs) = dense_rank_Q xs.
Proof.
  intros HP Hf Hm Hall. unfold dense_rank_Q.
  set (f' := fun c : Qc => Q2Qc (f c)).
  assert (E : map Q2Qc (map f xs) = map f' (map Q2Qc xs)).
  { rewrite !map_map. apply map_ext. intros a. unfold f'. apply Q2Qc_eq.
    apply Hf. simpl. symmetry. apply Qred_correct. }
  rewrite E.
  apply dense_rank_mono_invariant; auto using Qc_ltb_irrefl, Qc_ltb_total.
  intros a b Ha Hb.
  apply in_map_iff in Ha. destruct Ha as [a0 [<- Ha0]].
  apply in_map_iff in Hb. destruct Hb as [b0 [<- Hb0]].
  assert (Pa : P (Q2Qc a0)) by (apply (HP a0); [simpl; symmetry; apply Qred_correct|auto]).
  assert (Pb : P (Q2Qc b0)) by (apply (HP b0); [simpl; symmetry; apply Qred_correct|auto]).
  unfold f'.
  destruct (Qc_ltb (Q2Qc a0) (Q2Qc b0)) eqn:E1.
  - apply Qc_ltb_true. apply (proj2 (Q2Qc_lt _ _)). apply (proj2 (Hm _ _ Pa Pb)).
    apply Qc_ltb_true in E1. exact E1.
  - destruct (Qc_ltb (Q2Qc (f (Q2Qc a0))) (Q2Qc (f (Q2Qc b0)))) eqn:E2; auto.
    apply Qc_ltb_true in E2. apply (proj1 (Q2Qc_lt _ _)) in E2.
    apply (proj1 (Hm _ _ Pa Pb)) in E2.
    assert (E3 : (Q2Qc a0 < Q2Qc b0)%Qc) by exact E2.
    apply Qc_ltb_true in E3. congruence.
Qed.

(* reversed ranking orders by the negated values *)
Theorem rank_values_rev_lt xs i j x y ri rj :
  nth_error xs i = Some x -> nth_error xs j = Some y ->
  nth_error (rank_values true xs) i = Some ri -> nth_error (rank_values true xs) j = Some rj ->
  ((y < x)%Q <-> (ri < rj)%nat).
Proof.
  intros Hx Hy Hri Hrj. unfold rank_values in *.
  rewrite <- (dense_rank_Q_lt (map Qopp xs) i j (-x) (-y) ri rj); auto.
  - split; intros H; [apply Qopp_lt_compat; auto|].
    apply Qopp_lt_compat in H. rewrite !Qopp_involutive in H. exact H.
  - rewrite nth_error_map, Hx. reflexivity.
  - rewrite nth_error_map, Hy. reflexivity.
Qed.

Theorem rank_values_rev_eq xs i j x y ri rj :
  nth_error xs i = Some x -> nth_error xs j = Some y ->
  nth_error (rank_values true xs) i = Some ri -> nth_error (rank_values true xs) j = Some rj ->
  ((x == y)%Q <-> ri = rj).
Proof.
  intros Hx Hy Hri Hrj. unfold rank_values in *.
  rewrite <- (dense_rank_Q_eq (map Qopp xs) i j (-x) (-y) ri rj); auto.
  - split; intros H; [rewrite H; reflexivity|].
    rewrite <- (Qopp_involutive x), <- (Qopp_involutive y), H. reflexivity.
  - rewrite nth_error_map, Hx. reflexivity.
  - rewrite nth_error_map, Hy. reflexivity.
Qed.

Lemma rank_values_length rev xs : length (rank_values rev xs) = length xs.
Proof. unfold rank_values. destruct rev; rewrite dense_rank_Q_length, ?map_length; reflexivity. Qed.

Definition rank_count (rev : bool) (xs : list Q) : nat :=
  if rev then distinct_count (map Qopp xs) else distinct_count xs.

Theorem rank_values_image rev xs r :
  In r (rank_values rev xs) <-> (1 <= r <= rank_count rev xs)%nat.
Proof.
  unfold rank_values, rank_count. destruct rev; split;
    auto using dense_rank_Q_range, dense_rank_Q_nogaps.
Qed.

(* a strictly increasing list of scores is ranked 1, 2, ..., n; a merely non-decreasing one is not (so a fast path
   "already in rank order" must test > and not >=) *)
From Coq Require Import Sorting.Sorted.
Theorem dense_rank_Q_of_strictly_increasing xs :
  StronglySorted Qlt xs -> dense_rank_Q xs = seq 1 (length xs).
Proof.
  intros H. unfold dense_rank_Q.
  rewrite (dense_rank_of_strictly_increasing Qc Qc_ltb Qc_eq_dec Qc_ltb_irrefl Qc_ltb_trans).
  - rewrite map_length. reflexivity.
  - induction H as [|a l Hs IH Hall]; cbn [map]; constructor; [exact IH|].
    rewrite Forall_forall in *. intros y Hy. apply in_map_iff in Hy. destruct Hy as [y0 [<- Hy0]].
    unfold slt. apply Qc_ltb_true. apply (proj2 (Q2Qc_lt _ _)). apply Hall. exact Hy0.
Qed.

Example non_decreasing_is_not_enough :
  exists xs, StronglySorted Qle xs /\ dense_rank_Q xs <> seq 1 (length xs).
Proof.
  exists [1; 1]%Q. split.
  - repeat constructor; apply Qle_refl.
  - vm_compute. discriminate.
Qed.
