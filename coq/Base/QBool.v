(* Boolean comparisons on Q with their reflection lemmas. *)
From Coq Require Import QArith Bool Lia Lqa.

Definition Qltb (x y : Q) : bool := match x ?= y with Lt => true | _ => false end.
Definition Qleb (x y : Q) : bool := match x ?= y with Gt => false | _ => true end.
Definition Qeqb (x y : Q) : bool := match x ?= y with Eq => true | _ => false end.

Lemma Qltb_lt x y : Qltb x y = true <-> x < y.
Proof. unfold Qltb. rewrite Qlt_alt. destruct (x ?= y); split; congruence. Qed.
Lemma Qleb_le x y : Qleb x y = true <-> x <= y.
Proof. unfold Qleb. rewrite Qle_alt. destruct (x ?= y); split; congruence. Qed.
Lemma Qeqb_eq x y : Qeqb x y = true <-> x == y.
Proof. unfold Qeqb. rewrite Qeq_alt. destruct (x ?= y); split; congruence. Qed.

Lemma Qltb_ge x y : Qltb x y = false <-> y <= x.
Proof.
  split; intros H.
  - destruct (Qlt_le_dec x y) as [L|L]; auto. apply Qltb_lt in L. congruence.
  - destruct (Qltb x y) eqn:E; auto. apply Qltb_lt in E. lra.
Qed.
Lemma Qleb_gt x y : Qleb x y = false <-> y < x.
Proof.
  split; intros H.
  - destruct (Qlt_le_dec y x) as [L|L]; auto. apply Qleb_le in L. congruence.
  - destruct (Qleb x y) eqn:E; auto. apply Qleb_le in E. lra.
Qed.
Lemma Qeqb_neq x y : Qeqb x y = false <-> ~ x == y.
Proof.
  split; intros H.
  - intros E. apply Qeqb_eq in E. congruence.
  - destruct (Qeqb x y) eqn:E; auto. apply Qeqb_eq in E. contradiction.
Qed.

Lemma Qeqb_sym x y : Qeqb x y = Qeqb y x.
Proof.
  destruct (Qeqb x y) eqn:E, (Qeqb y x) eqn:F; auto.
  - apply Qeqb_eq in E. apply Qeqb_neq in F. exfalso. apply F. lra.
  - apply Qeqb_eq in F. apply Qeqb_neq in E. exfalso. apply E. lra.
Qed.

(* tactic: turn boolean comparison facts into Q (in)equalities *)
Ltac qb :=
  repeat match goal with
  | H : Qltb _ _ = true |- _ => apply Qltb_lt in H
  | H : Qltb _ _ = false |- _ => apply Qltb_ge in H
  | H : Qleb _ _ = true |- _ => apply Qleb_le in H
  | H : Qleb _ _ = false |- _ => apply Qleb_gt in H
  | H : Qeqb _ _ = true |- _ => apply Qeqb_eq in H
  | H : Qeqb _ _ = false |- _ => apply Qeqb_neq in H
  | |- Qltb _ _ = true => apply Qltb_lt
  | |- Qltb _ _ = false => apply Qltb_ge
  | |- Qleb _ _ = true => apply Qleb_le
  | |- Qleb _ _ = false => apply Qleb_gt
  | |- Qeqb _ _ = true => apply Qeqb_eq
  | |- Qeqb _ _ = false => apply Qeqb_neq
  end.
